// No-op ThreadSanitizer callbacks for the FREE-RUNNING variant: the same instrumented objects are linked with the real
// libgomp and run on real threads; only used to validate the mcomp runtime's OpenMP semantics (bit-identical outputs).
// Compiled without -fsanitize=thread.
#include <cstddef>
extern "C" {
void __tsan_init(void) {}
void __tsan_func_entry(void*) {}
void __tsan_func_exit(void) {}
void __tsan_read1(void*) {}
void __tsan_read2(void*) {}
void __tsan_read4(void*) {}
void __tsan_read8(void*) {}
void __tsan_read16(void*) {}
void __tsan_write1(void*) {}
void __tsan_write2(void*) {}
void __tsan_write4(void*) {}
void __tsan_write8(void*) {}
void __tsan_write16(void*) {}
void __tsan_unaligned_read2(void*) {}
void __tsan_unaligned_read4(void*) {}
void __tsan_unaligned_read8(void*) {}
void __tsan_unaligned_read16(void*) {}
void __tsan_unaligned_write2(void*) {}
void __tsan_unaligned_write4(void*) {}
void __tsan_unaligned_write8(void*) {}
void __tsan_unaligned_write16(void*) {}
void __tsan_read_range(void*, unsigned long) {}
void __tsan_write_range(void*, unsigned long) {}
void __tsan_vptr_update(void**, void*) {}
void __tsan_vptr_read(void**) {}
long __tsan_atomic64_load(const volatile long* a, int) { return __atomic_load_n(a, __ATOMIC_SEQ_CST); }
int __tsan_atomic32_load(const volatile int* a, int) { return __atomic_load_n(a, __ATOMIC_SEQ_CST); }
void __tsan_atomic64_store(volatile long* a, long v, int) { __atomic_store_n(a, v, __ATOMIC_SEQ_CST); }
void __tsan_atomic32_store(volatile int* a, int v, int) { __atomic_store_n(a, v, __ATOMIC_SEQ_CST); }
int __tsan_atomic64_compare_exchange_strong(volatile long* a, long* c, long v, int, int)
{
    return __atomic_compare_exchange_n(a, c, v, false, __ATOMIC_SEQ_CST, __ATOMIC_SEQ_CST);
}
int __tsan_atomic64_compare_exchange_weak(volatile long* a, long* c, long v, int, int)
{
    return __atomic_compare_exchange_n(a, c, v, true, __ATOMIC_SEQ_CST, __ATOMIC_SEQ_CST);
}
long __tsan_atomic64_fetch_add(volatile long* a, long v, int) { return __atomic_fetch_add(a, v, __ATOMIC_SEQ_CST); }
int __tsan_atomic32_fetch_add(volatile int* a, int v, int) { return __atomic_fetch_add(a, v, __ATOMIC_SEQ_CST); }
void __tsan_atomic_thread_fence(int) { __atomic_thread_fence(__ATOMIC_SEQ_CST); }
void __tsan_atomic_signal_fence(int) {}
}
