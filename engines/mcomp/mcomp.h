// mcomp: OpenMP schedule explorer with an exact happens-before race oracle.
// A replacement for libgomp (GOMP_parallel / GOMP_barrier / omp_*) plus the ThreadSanitizer compiler callbacks
// (__tsan_read*/__tsan_write*/...), linked INSTEAD of libgomp and libtsan.  Team members are ucontext coroutines on one
// OS thread; a scheduling point is a team barrier; a schedule is the order in which the runnable members execute their
// block in every barrier epoch.  Every load/store of instrumented code inside a multi-member region is recorded per
// epoch and per member at byte granularity; at the end of an epoch any byte written by one member and read or written
// by another is a data race (barriers are the only synchronisation this code base uses).
#pragma once
#include <cstdint>
#include <string>
#include <vector>

namespace mcomp
{
struct Conflict {
    int epoch, member_a, member_b;
    uint64_t addr;
    void* pc_a;
    void* pc_b;
    bool a_write, b_write;
    long alloc_id;   // heap block (allocation order), -1 if not a tracked heap block
    long alloc_off;  // offset inside the block
    long alloc_size;
};
struct RunStats {
    long regions = 0, epochs = 0, multi_epochs = 0, blocks = 0, accesses = 0, granules = 0, pair_checks = 0;
    long dynamic_chunks = 0; // chunks handed out by dynamically scheduled loops
    long critical_sections = 0; // passes through the unnamed critical section
    long conflicts = 0, writer_epochs = 0; // epochs in which >= 2 members wrote
    long memops = 0, quarantined = 0, audit_blocks = 0, audit_unlogged_bytes = 0;
    bool deadlock = false, unsupported = false;
    std::string unsupported_what;
    std::vector<Conflict> first_conflicts; // at most 8
    std::vector<uint64_t> epoch_sig;       // per multi-member epoch: order-independent hash of all members' access sets
    std::vector<int> epoch_members;        // per multi-member epoch: number of runnable members
};
// schedule: for multi-member epoch k (0-based, counted over the whole run) the order in which runnable members run.
// An entry whose size does not match the number of runnable members of that epoch is a hard error (replay divergence).
void begin_run(const std::vector<std::pair<int, std::vector<int>>>& schedule, bool audit);
RunStats end_run();
bool replay_diverged();
} // namespace mcomp
