// mcomp runtime (see mcomp.h).  This translation unit is compiled WITHOUT -fsanitize=thread and -fopenmp.
#include "mcomp.h"

#include <cstdio>
#include <cstdlib>
#include <cstring>
#include <new>
#include <sys/mman.h>
#include <ucontext.h>
#include <unistd.h>

namespace
{
// ------------------------------------------------------------------------------------------
// raw allocation helpers (the engine must not use operator new: it replaces it)
// ------------------------------------------------------------------------------------------
template <class T>
struct RawVec {
    T* p = nullptr;
    size_t n = 0, cap = 0;
    void push(const T& v)
    {
        if (n == cap) {
            cap = cap ? cap * 2 : 1024;
            p   = (T*)realloc(p, cap * sizeof(T));
            if (!p)
                abort();
        }
        p[n++] = v;
    }
    void clear()
    {
        n = 0;
    }
    T& operator[](size_t i)
    {
        return p[i];
    }
};

struct Acc { // one member's accesses to one 8-byte granule in the current epoch
    uint32_t next;
    uint16_t member;
    uint8_t rmask, wmask;
    uint8_t lock; // 0: no lock held; 1: inside the unnamed critical section; 2: inside a lock-based atomic
    void* pc_r;
    void* pc_w;
};
struct Gran {
    uint64_t key; // addr >> 3, +1 (0 = empty)
    uint32_t head;
};

struct GranMap {
    Gran* tab = nullptr;
    size_t cap = 0, used = 0;
    RawVec<Acc> pool;
    void init(size_t c)
    {
        cap = c;
        tab = (Gran*)calloc(cap, sizeof(Gran));
        used = 0;
    }
    void clear()
    {
        if (used * 4 > cap || cap > (1u << 16))
            memset(tab, 0, cap * sizeof(Gran));
        else
            memset(tab, 0, cap * sizeof(Gran));
        used = 0;
        pool.clear();
    }
    void grow()
    {
        Gran* old   = tab;
        size_t ocap = cap;
        cap *= 2;
        tab = (Gran*)calloc(cap, sizeof(Gran));
        for (size_t i = 0; i < ocap; i++)
            if (old[i].key) {
                size_t h = (old[i].key * 0x9E3779B97F4A7C15ull) >> 20;
                size_t j = h & (cap - 1);
                while (tab[j].key)
                    j = (j + 1) & (cap - 1);
                tab[j] = old[i];
            }
        free(old);
    }
    Gran* find(uint64_t key)
    {
        if ((used + 1) * 2 > cap)
            grow();
        size_t h = (key * 0x9E3779B97F4A7C15ull) >> 20;
        size_t j = h & (cap - 1);
        while (tab[j].key && tab[j].key != key)
            j = (j + 1) & (cap - 1);
        if (!tab[j].key) {
            tab[j].key  = key;
            tab[j].head = 0xFFFFFFFFu;
            used++;
        }
        return &tab[j];
    }
};

// a dynamically scheduled work-sharing loop: iterations are handed out chunk by chunk.  Normalised to an unsigned count of
// iterations so that the long and the unsigned long long entry points share it.
struct WorkShare {
    bool ull, up;
    unsigned long long ustart, uincr; // ull loops
    long lstart, lincr; // long loops
    unsigned long long total, next, chunk; // iteration counts
    bool guided;
};

struct Member {
    ucontext_t ctx;
    char* stack;
    size_t ssize;
    int state; // 0 runnable, 1 at barrier, 2 done, 3 yielded inside the epoch (asked for the next chunk of a dynamic loop)
    uint64_t sig; // access-set hash of the current epoch
    bool wrote;
    int icv; // nthreads-var of this implicit task
    long singles; // single constructs this member has encountered
    long shares; // dynamically scheduled loops this member has entered
};
struct Team {
    long singles_taken; // single constructs already executed by some member
    WorkShare ws[64]; // dynamically scheduled loops of this region, by order of encounter (ring)
    long ws_created;
    int n;
    Member* m;
    void (*fn)(void*);
    void* data;
    ucontext_t sched;
    Team* parent;
    int parent_member;
};

// omp query stack (every parallel region, active or not)
struct Frame {
    int thread_num, num_threads, icv;
};
RawVec<Frame> g_frames;

Team* g_active        = nullptr; // the innermost ACTIVE (n > 1) team
int g_member          = -1; // member of g_active currently running (-1: scheduler)
int g_icv             = 1;
bool g_running        = false;
bool g_audit          = false;
bool g_diverged       = false;
mcomp::RunStats* g_st = nullptr;
mcomp::RunStats g_stats;
GranMap g_map;
int g_epoch = -1; // index of the current multi-member epoch

struct SchedEntry {
    int epoch;
    int n;
    int order[64];
};
RawVec<SchedEntry> g_sched;

// ---- heap tracking (for quarantine, conflict attribution and the write-completeness audit)
struct Block {
    char* p;
    size_t size;
    long id;
    bool live;
    bool quarantined;
};
RawVec<Block> g_blocks;
long g_alloc_counter = 0;
struct PtrMap {
    struct E {
        char* p;
        uint32_t idx;
    };
    E* tab = nullptr;
    size_t cap = 0, used = 0;
    void ensure()
    {
        if (!tab) {
            cap = 1 << 16;
            tab = (E*)calloc(cap, sizeof(E));
        }
        if ((used + 1) * 2 > cap) {
            E* old      = tab;
            size_t ocap = cap;
            cap *= 2;
            tab  = (E*)calloc(cap, sizeof(E));
            used = 0;
            for (size_t i = 0; i < ocap; i++)
                if (old[i].p && old[i].p != (char*)1)
                    put(old[i].p, old[i].idx);
            free(old);
        }
    }
    size_t slot(char* p)
    {
        return (((uintptr_t)p >> 4) * 0x9E3779B97F4A7C15ull >> 24) & (cap - 1);
    }
    void put(char* p, uint32_t idx)
    {
        ensure();
        size_t j = slot(p);
        while (tab[j].p && tab[j].p != (char*)1)
            j = (j + 1) & (cap - 1);
        tab[j].p   = p;
        tab[j].idx = idx;
        used++;
    }
    long get(char* p)
    {
        if (!tab)
            return -1;
        size_t j = slot(p);
        while (tab[j].p) {
            if (tab[j].p == p)
                return tab[j].idx;
            j = (j + 1) & (cap - 1);
        }
        return -1;
    }
    void del(char* p)
    {
        if (!tab)
            return;
        size_t j = slot(p);
        while (tab[j].p) {
            if (tab[j].p == p) {
                tab[j].p = (char*)1; // tombstone
                return;
            }
            j = (j + 1) & (cap - 1);
        }
    }
};
RawVec<uint32_t> g_quarantine;
RawVec<void*> g_rawq;
bool g_track = false; // allocation tracking only while a run is in progress

// During a run every allocation comes from a bump arena that is rewound by begin_run(): identical runs see identical
// addresses (so access-set signatures of different schedules are comparable) and nothing is ever reused within a run
// (so allocator reuse between two members' scratch vectors can never look like a conflict).
// Allocations made by a team member inside a multi-member region come from that member's own sub-arena, so the address
// of a member's k-th allocation does not depend on the order in which the members ran.
char* g_arena       = nullptr;
const size_t MAIN_ARENA = (size_t)6 << 30, MEMBER_ARENA = (size_t)128 << 20;
const int MAX_MEMBERS   = 64;
size_t g_arena_size = 0, g_main_used = 0, g_member_used[MAX_MEMBERS];
inline bool inArena(const void* p)
{
    return g_arena && (const char*)p >= g_arena && (const char*)p < g_arena + g_arena_size;
}
void* trackedAlloc(size_t sz)
{
    if (g_track) {
        if (!g_arena) {
            g_arena_size = MAIN_ARENA + MEMBER_ARENA * MAX_MEMBERS;
            g_arena      = (char*)mmap(nullptr, g_arena_size, PROT_READ | PROT_WRITE, MAP_PRIVATE | MAP_ANONYMOUS | MAP_NORESERVE, -1, 0);
            if (g_arena == (char*)MAP_FAILED)
                abort();
        }
        size_t need = (sz + 15) & ~(size_t)15;
        if (need == 0)
            need = 16;
        char* p;
        if (g_active && g_member >= 0) {
            if (g_member_used[g_member] + need > MEMBER_ARENA) {
                fprintf(stderr, "mcomp: member arena exhausted\n");
                abort();
            }
            p = g_arena + MAIN_ARENA + MEMBER_ARENA * (size_t)g_member + g_member_used[g_member];
            g_member_used[g_member] += need;
        }
        else {
            if (g_main_used + need > MAIN_ARENA) {
                fprintf(stderr, "mcomp: arena exhausted\n");
                abort();
            }
            p = g_arena + g_main_used;
            g_main_used += need;
        }
        Block b{p, sz, g_alloc_counter++, true, false};
        g_blocks.push(b);
        return p;
    }
    void* p = malloc(sz ? sz : 1);
    if (!p)
        throw std::bad_alloc();
    return p;
}
void trackedFree(void* p)
{
    if (!p)
        return;
    if (inArena(p)) {
        if (g_st && g_active)
            g_st->quarantined++;
        return; // arena memory is reclaimed wholesale by the next begin_run()
    }
    if (g_active && g_running) { // allocated before the run: keep the address reserved until the region ends
        g_rawq.push(p);
        return;
    }
    free(p);
}
void releaseQuarantine()
{
    for (size_t k = 0; k < g_rawq.n; k++)
        free(g_rawq[k]);
    g_rawq.clear();
}
// which tracked block contains addr?  (linear scan; only used when reporting a conflict)
void attribute(uint64_t addr, long& id, long& off, long& size)
{
    id = off = size = -1;
    if (!inArena((void*)addr))
        return;
    for (size_t i = 0; i < g_blocks.n; i++) {
        Block& b = g_blocks[i];
        if ((uint64_t)b.p <= addr && addr < (uint64_t)b.p + (b.size ? b.size : 1)) {
            id   = b.id;
            off  = (long)(addr - (uint64_t)b.p);
            size = (long)b.size;
            return;
        }
    }
}

// ---- audit: snapshot of all live blocks before a block, diff against the logged write set afterwards
struct Snap {
    char* copy = nullptr;
    size_t cap = 0;
} g_snap;
RawVec<size_t> g_snap_off;
size_t g_snap_blocks = 0;
// engine-internal copy: must not go through the logging memcpy below
void rawCopy(char* d, const char* s, size_t n)
{
    const uint64_t* s8 = (const uint64_t*)s;
    uint64_t* d8       = (uint64_t*)d;
    size_t k           = 0;
    for (; k + 8 <= n; k += 8)
        *d8++ = *s8++;
    for (; k < n; k++)
        d[k] = s[k];
}
void takeSnapshot()
{
    size_t total = 0;
    for (size_t i = 0; i < g_blocks.n; i++)
        if (g_blocks[i].live)
            total += g_blocks[i].size;
    if (total > g_snap.cap) {
        g_snap.cap  = total * 2 + 4096;
        g_snap.copy = (char*)realloc(g_snap.copy, g_snap.cap);
    }
    g_snap_off.clear();
    size_t off = 0;
    for (size_t i = 0; i < g_blocks.n; i++) {
        g_snap_off.push(off);
        if (g_blocks[i].live) {
            rawCopy(g_snap.copy + off, g_blocks[i].p, g_blocks[i].size);
            off += g_blocks[i].size;
        }
    }
    g_snap_blocks = g_blocks.n;
}
void logAccess(uint64_t addr, size_t size, bool write, void* pc);
bool wasLoggedWrite(uint64_t addr, int member)
{
    uint64_t key = (addr >> 3) + 1;
    size_t h     = (key * 0x9E3779B97F4A7C15ull) >> 20;
    size_t j     = h & (g_map.cap - 1);
    while (g_map.tab[j].key) {
        if (g_map.tab[j].key == key) {
            uint32_t a = g_map.tab[j].head;
            while (a != 0xFFFFFFFFu) {
                Acc& e = g_map.pool[a];
                if (e.member == member && (e.wmask & (1u << (addr & 7))))
                    return true;
                a = e.next;
            }
            return false;
        }
        j = (j + 1) & (g_map.cap - 1);
    }
    return false;
}
void diffSnapshot(int member)
{
    for (size_t i = 0; i < g_snap_blocks; i++) {
        Block& b = g_blocks[i];
        if (!b.live || b.quarantined)
            continue;
        const char* old = g_snap.copy + g_snap_off[i];
        if (memcmp(old, b.p, b.size) == 0)
            continue;
        for (size_t k = 0; k < b.size; k++)
            if (old[k] != b.p[k] && !wasLoggedWrite((uint64_t)(b.p + k), member))
                g_st->audit_unlogged_bytes++;
    }
    g_st->audit_blocks++;
}

inline uint64_t mix(uint64_t x)
{
    x ^= x >> 33;
    x *= 0xff51afd7ed558ccdULL;
    x ^= x >> 33;
    x *= 0xc4ceb9fe1a85ec53ULL;
    x ^= x >> 33;
    return x;
}

// lock held by the running member (members run from barrier to barrier without preemption, so one global is enough):
// two accesses made under the same lock are ordered by it and are not a race; an access under a lock and one without are
uint8_t g_lock = 0;

void logGranule(uint64_t g, uint8_t mask, bool write, void* pc)
{
    Gran* gr   = g_map.find(g + 1);
    uint32_t a = gr->head;
    while (a != 0xFFFFFFFFu) {
        Acc& e = g_map.pool[a];
        if (e.member == g_member && e.lock == g_lock) {
            if (write) {
                if (!e.wmask)
                    e.pc_w = pc;
                e.wmask |= mask;
            }
            else {
                if (!e.rmask)
                    e.pc_r = pc;
                e.rmask |= mask;
            }
            return;
        }
        a = e.next;
    }
    Acc n;
    n.next   = gr->head;
    n.member = (uint16_t)g_member;
    n.lock   = g_lock;
    n.rmask  = write ? 0 : mask;
    n.wmask  = write ? mask : 0;
    n.pc_r   = write ? nullptr : pc;
    n.pc_w   = write ? pc : nullptr;
    g_map.pool.push(n);
    gr->head = (uint32_t)(g_map.pool.n - 1);
}

void logAccess(uint64_t addr, size_t size, bool write, void* pc)
{
    if (!g_active || g_member < 0 || !g_running)
        return;
    Member& me = g_active->m[g_member];
    if (addr >= (uint64_t)me.stack && addr < (uint64_t)me.stack + me.ssize)
        return; // own stack: private by construction
    g_st->accesses++;
    if (write)
        me.wrote = true;
    uint64_t end = addr + size;
    while (addr < end) {
        uint64_t g  = addr >> 3;
        unsigned lo = (unsigned)(addr & 7);
        unsigned hi = (unsigned)((end - (g << 3)) > 8 ? 8 : (end - (g << 3)));
        uint8_t mask = (uint8_t)(((1u << hi) - 1) & ~((1u << lo) - 1));
        logGranule(g, mask, write, pc);
        addr = (g + 1) << 3;
    }
}

void endEpoch(Team* t)
{
    // conflicts + per-member signatures
    long writers = 0;
    for (int i = 0; i < t->n; i++) {
        t->m[i].sig = 0;
        if (t->m[i].wrote)
            writers++;
        t->m[i].wrote = false;
    }
    if (writers >= 2)
        g_st->writer_epochs++;
    for (size_t j = 0; j < g_map.cap; j++) {
        Gran& gr = g_map.tab[j];
        if (!gr.key)
            continue;
        g_st->granules++;
        for (uint32_t a = gr.head; a != 0xFFFFFFFFu; a = g_map.pool[a].next) {
            Acc& x = g_map.pool[a];
            t->m[x.member].sig += mix(gr.key * 1315423911ull + ((uint64_t)x.rmask << 8) + x.wmask);
            if (!x.wmask)
                continue;
            for (uint32_t b = gr.head; b != 0xFFFFFFFFu; b = g_map.pool[b].next) {
                if (a == b)
                    continue;
                Acc& y = g_map.pool[b];
                if (y.member == x.member)
                    continue; // the same member with and without the lock: program order
                if (x.lock && x.lock == y.lock)
                    continue; // both inside the same critical section / lock-based atomic: mutually exclusive
                g_st->pair_checks++;
                uint8_t hit = x.wmask & (y.rmask | y.wmask);
                if (!hit)
                    continue;
                if (y.wmask && (x.wmask & y.wmask) && y.member < x.member)
                    continue; // write/write pair is reported once
                g_st->conflicts++;
                if (g_st->first_conflicts.size() < 8) {
                    mcomp::Conflict c;
                    c.epoch    = g_epoch;
                    c.member_a = x.member;
                    c.member_b = y.member;
                    int bit    = __builtin_ctz(hit);
                    c.addr     = ((gr.key - 1) << 3) + bit;
                    c.pc_a     = x.pc_w;
                    c.a_write  = true;
                    c.b_write  = (y.wmask & x.wmask) != 0;
                    c.pc_b     = c.b_write ? y.pc_w : y.pc_r;
                    attribute(c.addr, c.alloc_id, c.alloc_off, c.alloc_size);
                    g_st->first_conflicts.push_back(c);
                }
            }
        }
    }
    uint64_t sig = 0;
    for (int i = 0; i < t->n; i++)
        sig += mix(t->m[i].sig + 0x1234567ull * (i + 1));
    g_st->epoch_sig.push_back(sig);
    g_map.clear();
}

void trampoline(unsigned lo, unsigned hi)
{
    Team* t = (Team*)(((uint64_t)hi << 32) | lo);
    int me  = g_member;
    t->fn(t->data);
    t->m[me].state = 2;
    swapcontext(&t->m[me].ctx, &t->sched);
}

const size_t STACK = 2u << 20;

void unsupported(const char* what)
{
    if (g_st) {
        g_st->unsupported      = true;
        g_st->unsupported_what = what;
    }
    fprintf(stderr, "mcomp: unsupported OpenMP construct reached: %s\n", what);
    fflush(stderr);
    _exit(86);
}
} // namespace

// ============================================================================================
// public API
// ============================================================================================
namespace mcomp
{
void begin_run(const std::vector<std::pair<int, std::vector<int>>>& schedule, bool audit)
{
    if (!g_map.tab)
        g_map.init(1 << 14);
    g_stats = RunStats();
    g_st    = &g_stats;
    g_sched.clear();
    for (auto& e : schedule) {
        SchedEntry s;
        s.epoch = e.first;
        s.n     = (int)e.second.size();
        for (int i = 0; i < s.n && i < 64; i++)
            s.order[i] = e.second[i];
        g_sched.push(s);
    }
    g_audit    = audit;
    g_epoch    = -1;
    g_diverged = false;
    g_running  = true;
    g_track    = true;
    g_blocks.clear();
    g_alloc_counter = 0;
    // rewind the arenas; pages touched by the previous run are handed back so that stale data cannot leak into this run
    if (g_arena) {
        if (g_main_used)
            madvise(g_arena, (g_main_used + 4095) & ~(size_t)4095, MADV_DONTNEED);
        for (int m = 0; m < MAX_MEMBERS; m++)
            if (g_member_used[m])
                madvise(g_arena + MAIN_ARENA + MEMBER_ARENA * (size_t)m, (g_member_used[m] + 4095) & ~(size_t)4095, MADV_DONTNEED);
    }
    g_main_used = 0;
    for (int m = 0; m < MAX_MEMBERS; m++)
        g_member_used[m] = 0;
}
RunStats end_run()
{
    g_running = false;
    g_track   = false;
    RunStats r = g_stats; // copied with ordinary malloc storage (tracking is off)
    g_st       = nullptr;
    return r;
}
bool replay_diverged()
{
    return g_diverged;
}
} // namespace mcomp

// ============================================================================================
// libgomp entry points
// ============================================================================================
extern "C" {

void GOMP_barrier(void)
{
    if (!g_active || g_member < 0)
        return;
    // a barrier inside a serialised nested region binds to that (one-member) region
    if (g_frames.n && g_frames[g_frames.n - 1].num_threads == 1)
        return;
    Team* t           = g_active;
    int me            = g_member;
    t->m[me].state    = 1;
    swapcontext(&t->m[me].ctx, &t->sched);
}

static WorkShare* g_serial_ws[16]; // work shares of loops met outside an active team (serialised regions, orphaned loops)
static int g_serial_n = 0;
static WorkShare g_serial_store[16];

static void run_parallel(void (*fn)(void*), void* data, unsigned num_threads, const WorkShare* init);

void GOMP_parallel(void (*fn)(void*), void* data, unsigned num_threads, unsigned flags)
{
    (void)flags;
    run_parallel(fn, data, num_threads, nullptr);
}

static void run_parallel(void (*fn)(void*), void* data, unsigned num_threads, const WorkShare* init)
{
    int n = num_threads ? (int)num_threads : g_icv;
    if (g_active)
        n = 1; // nested regions are serialised (libgomp default: one active level)
    if (n > 64)
        n = 64;
    const int creator_icv = g_frames.n ? g_frames[g_frames.n - 1].icv : g_icv;
    if (n <= 1) {
        Frame f{0, 1, creator_icv};
        g_frames.push(f);
        if (init) { // combined parallel loop: the work share exists before the body asks for its first chunk
            if (g_serial_n >= 16)
                unsupported("more than 16 nested dynamically scheduled loops");
            g_serial_store[g_serial_n] = *init;
            g_serial_ws[g_serial_n]    = &g_serial_store[g_serial_n];
            g_serial_n++;
        }
        fn(data);
        g_frames.n--;
        return;
    }
    if (g_st)
        g_st->regions++;
    Team team;
    team.n             = n;
    team.m             = (Member*)calloc(n, sizeof(Member));
    team.fn            = fn;
    team.data          = data;
    team.parent        = nullptr;
    team.parent_member = -1;
    team.singles_taken = 0;
    team.ws_created    = 0;
    if (init) {
        team.ws[0]      = *init;
        team.ws_created = 1;
    }
    for (int i = 0; i < n; i++) {
        Member& m = team.m[i];
        m.stack   = (char*)mmap(nullptr, STACK, PROT_READ | PROT_WRITE, MAP_PRIVATE | MAP_ANONYMOUS | MAP_STACK, -1, 0);
        m.ssize   = STACK;
        m.state   = 0;
        m.icv     = creator_icv;
        m.shares  = init ? 1 : 0; // combined parallel loop: every member is already inside work share 0
        getcontext(&m.ctx);
        m.ctx.uc_stack.ss_sp   = m.stack;
        m.ctx.uc_stack.ss_size = STACK;
        m.ctx.uc_link          = nullptr;
        uint64_t p             = (uint64_t)&team;
        makecontext(&m.ctx, (void (*)())trampoline, 2, (unsigned)(p & 0xffffffffu), (unsigned)(p >> 32));
    }
    g_active = &team;
    int order[64], runnable[64];
    for (;;) {
        int nr = 0;
        for (int i = 0; i < n; i++)
            if (team.m[i].state == 0)
                runnable[nr++] = i;
        if (nr == 0)
            break;
        g_epoch++;
        if (g_st) {
            g_st->epochs++;
            g_st->multi_epochs++;
            g_st->epoch_members.push_back(nr);
        }
        for (int i = 0; i < nr; i++)
            order[i] = runnable[i];
        for (size_t k = 0; k < g_sched.n; k++)
            if (g_sched[k].epoch == g_epoch) {
                if (g_sched[k].n != nr) {
                    g_diverged = true;
                    fprintf(stderr, "mcomp: schedule does not fit the run (epoch %d has %d runnable members, schedule has %d)\n",
                            g_epoch, nr, g_sched[k].n);
                }
                else {
                    // the schedule is a permutation of positions in the runnable list
                    for (int i = 0; i < nr; i++)
                        order[i] = runnable[g_sched[k].order[i]];
                }
            }
        // every runnable member runs until it reaches a barrier, ends, or asks for the next chunk of a dynamically scheduled loop;
        // members that yielded there are resumed round-robin in the epoch's order until all are at the barrier or done
        bool firstPass = true, again = true;
        while (again) {
            again = false;
            for (int i = 0; i < nr; i++) {
                int id = order[i];
                if (!firstPass) {
                    if (team.m[id].state != 3)
                        continue;
                    team.m[id].state = 0;
                }
                g_member = id;
                Frame f{id, n, team.m[id].icv};
                g_frames.push(f);
                if (g_audit)
                    takeSnapshot();
                if (g_st)
                    g_st->blocks++;
                swapcontext(&team.sched, &team.m[id].ctx);
                if (g_audit)
                    diffSnapshot(id);
                team.m[id].icv = g_frames[g_frames.n - 1].icv;
                g_frames.n--;
                g_member = -1;
                if (team.m[id].state == 3)
                    again = true;
            }
            firstPass = false;
        }
        if (g_st)
            endEpoch(&team);
        int atb = 0, done = 0;
        for (int i = 0; i < n; i++) {
            if (team.m[i].state == 1)
                atb++;
            if (team.m[i].state == 2)
                done++;
        }
        if (atb > 0 && done > 0) {
            if (g_st)
                g_st->deadlock = true;
            fprintf(stderr, "mcomp: deadlock: %d member(s) wait at a barrier that %d member(s) will never reach\n", atb, done);
            fflush(stderr);
            _exit(87);
        }
        for (int i = 0; i < n; i++)
            if (team.m[i].state == 1)
                team.m[i].state = 0;
    }
    g_active = nullptr;
    g_member = -1;
    releaseQuarantine();
    for (int i = 0; i < n; i++)
        munmap(team.m[i].stack, STACK);
    free(team.m);
}

// single: the member that reaches the construct first executes it (which one that is follows the epoch's permutation); the
// implicit barrier at its end is an ordinary GOMP_barrier emitted by the compiler (absent with nowait)
bool GOMP_single_start(void)
{
    if (!g_active || g_member < 0 || (g_frames.n && g_frames[g_frames.n - 1].num_threads == 1))
        return true;
    Member& me = g_active->m[g_member];
    me.singles++;
    if (g_active->singles_taken < me.singles) {
        g_active->singles_taken = me.singles;
        return true;
    }
    return false;
}
void GOMP_task(void)
{
    unsupported("task");
}
void GOMP_taskloop(void)
{
    unsupported("taskloop");
}
void GOMP_taskwait(void)
{
    unsupported("taskwait");
}
// unnamed critical section and lock-based atomic: modelled as two locks.  A member is never preempted between two barriers, so
// mutual exclusion holds by construction; the order in which members pass through the section follows the epoch's permutation
// (explored like every other order), and the race oracle excuses exactly the pairs that hold the same lock.
void GOMP_critical_start(void)
{
    if (g_lock)
        unsupported("nested critical / atomic");
    g_lock = 1;
    if (g_st)
        g_st->critical_sections++;
}
void GOMP_critical_end(void)
{
    g_lock = 0;
}
// named critical sections: one lock per name (the compiler passes the address of the name's lock word)
void GOMP_critical_name_start(void** pptr)
{
    if (g_lock)
        unsupported("nested critical / atomic");
    static void* names[200];
    static int nnames = 0;
    int id = -1;
    for (int i = 0; i < nnames; i++)
        if (names[i] == (void*)pptr)
            id = i;
    if (id < 0) {
        if (nnames >= 200)
            unsupported("more than 200 named critical sections");
        names[nnames] = (void*)pptr;
        id            = nnames++;
    }
    g_lock = (uint8_t)(3 + id);
    if (g_st)
        g_st->critical_sections++;
}
void GOMP_critical_name_end(void**)
{
    g_lock = 0;
}
void GOMP_atomic_start(void)
{
    if (g_lock)
        unsupported("nested critical / atomic");
    g_lock = 2;
}
void GOMP_atomic_end(void)
{
    g_lock = 0;
}
// ---- dynamically scheduled loops (dynamic, guided; long and unsigned long long iteration variables) ----------------------
// Inside an active team a member is suspended every time it asks for its NEXT chunk, and the suspended members are resumed
// round-robin in the epoch's order: chunk k of a loop goes to the k-th asker.  This is one legal assignment per explored
// permutation, not all of them (reported as such); conflicts between iterations that land on different members are found by
// the same per-epoch access-set comparison as for static schedules.
static bool in_active_team()
{
    return g_active && g_member >= 0 && !(g_frames.n && g_frames[g_frames.n - 1].num_threads == 1);
}
static void ws_init_long(WorkShare& w, long start, long end, long incr, long chunk, bool guided)
{
    w.ull    = false;
    w.up     = incr > 0;
    w.lstart = start;
    w.lincr  = incr;
    w.total  = 0;
    if (incr > 0 && end > start)
        w.total = ((unsigned long long)(end - start) + (unsigned long long)incr - 1) / (unsigned long long)incr;
    else if (incr < 0 && end < start)
        w.total = ((unsigned long long)(start - end) + (unsigned long long)(-incr) - 1) / (unsigned long long)(-incr);
    w.next   = 0;
    w.chunk  = chunk > 0 ? (unsigned long long)chunk : 1;
    w.guided = guided;
}
static void ws_init_ull(WorkShare& w, bool up, unsigned long long start, unsigned long long end, unsigned long long incr,
                        unsigned long long chunk, bool guided)
{
    w.ull    = true;
    w.up     = up;
    w.ustart = start;
    w.uincr  = incr;
    w.total  = 0;
    if (up && end > start)
        w.total = (end - start + incr - 1) / incr;
    else if (!up && end < start) {
        unsigned long long step = 0ull - incr;
        w.total                 = (start - end + step - 1) / step;
    }
    w.next   = 0;
    w.chunk  = chunk > 0 ? chunk : 1;
    w.guided = guided;
}
static bool ws_take(WorkShare& w, unsigned long long& first, unsigned long long& count, int nthreads)
{
    if (w.next >= w.total)
        return false;
    unsigned long long c = w.chunk;
    if (w.guided) {
        unsigned long long g = (w.total - w.next) / (unsigned long long)(nthreads > 0 ? nthreads : 1);
        if (g > c)
            c = g;
    }
    if (c > w.total - w.next)
        c = w.total - w.next;
    first = w.next;
    count = c;
    w.next += c;
    if (g_st)
        g_st->dynamic_chunks++;
    return true;
}
// the work share the calling member is in; 'enter' = a _start call (a new loop for this member)
static WorkShare* ws_current(bool enter, const WorkShare* proto)
{
    if (!in_active_team()) {
        if (enter) {
            if (g_serial_n >= 16)
                unsupported("more than 16 nested dynamically scheduled loops");
            g_serial_store[g_serial_n] = *proto;
            g_serial_ws[g_serial_n]    = &g_serial_store[g_serial_n];
            g_serial_n++;
        }
        if (g_serial_n == 0)
            unsupported("dynamic loop chunk requested outside any loop");
        return g_serial_ws[g_serial_n - 1];
    }
    Team* t    = g_active;
    Member& me = t->m[g_member];
    if (enter) {
        me.shares++;
        if (t->ws_created < me.shares) { // first member to reach this loop creates it
            t->ws[(me.shares - 1) % 64] = *proto;
            t->ws_created                = me.shares;
        }
        if (t->ws_created - me.shares >= 64)
            unsupported("a member lags more than 64 nowait dynamic loops behind");
    }
    return &t->ws[(me.shares - 1) % 64];
}
static void ws_yield()
{
    if (!in_active_team())
        return;
    Team* t        = g_active;
    int me         = g_member;
    t->m[me].state = 3;
    swapcontext(&t->m[me].ctx, &t->sched);
}
static bool ws_next_long(WorkShare* w, long* istart, long* iend, bool yieldFirst)
{
    if (yieldFirst)
        ws_yield();
    unsigned long long f, c;
    int nth = in_active_team() ? g_active->n : 1;
    if (!ws_take(*w, f, c, nth)) {
        if (!in_active_team() && g_serial_n > 0)
            g_serial_n--; // loop finished
        return false;
    }
    *istart = w->lstart + (long)f * w->lincr;
    *iend   = w->lstart + (long)(f + c) * w->lincr;
    return true;
}
static bool ws_next_ull(WorkShare* w, unsigned long long* istart, unsigned long long* iend, bool yieldFirst)
{
    if (yieldFirst)
        ws_yield();
    unsigned long long f, c;
    int nth = in_active_team() ? g_active->n : 1;
    if (!ws_take(*w, f, c, nth)) {
        if (!in_active_team() && g_serial_n > 0)
            g_serial_n--;
        return false;
    }
    *istart = w->ustart + f * w->uincr;
    *iend   = w->ustart + (f + c) * w->uincr;
    return true;
}
#define MCOMP_LOOP_LONG(NAME, GUIDED)                                                                                              \
    bool GOMP_loop_##NAME##_start(long start, long end, long incr, long chunk, long* istart, long* iend)                            \
    {                                                                                                                              \
        WorkShare proto;                                                                                                           \
        ws_init_long(proto, start, end, incr, chunk, GUIDED);                                                                      \
        return ws_next_long(ws_current(true, &proto), istart, iend, false);                                                        \
    }                                                                                                                              \
    bool GOMP_loop_##NAME##_next(long* istart, long* iend)                                                                         \
    {                                                                                                                              \
        return ws_next_long(ws_current(false, nullptr), istart, iend, true);                                                       \
    }                                                                                                                              \
    void GOMP_parallel_loop_##NAME(void (*fn)(void*), void* data, unsigned num_threads, long start, long end, long incr,            \
                                   long chunk, unsigned flags)                                                                     \
    {                                                                                                                              \
        (void)flags;                                                                                                               \
        WorkShare proto;                                                                                                           \
        ws_init_long(proto, start, end, incr, chunk, GUIDED);                                                                      \
        run_parallel(fn, data, num_threads, &proto);                                                                               \
    }
#define MCOMP_LOOP_ULL(NAME, GUIDED)                                                                                               \
    bool GOMP_loop_ull_##NAME##_start(bool up, unsigned long long start, unsigned long long end, unsigned long long incr,           \
                                      unsigned long long chunk, unsigned long long* istart, unsigned long long* iend)              \
    {                                                                                                                              \
        WorkShare proto;                                                                                                           \
        ws_init_ull(proto, up, start, end, incr, chunk, GUIDED);                                                                   \
        return ws_next_ull(ws_current(true, &proto), istart, iend, false);                                                         \
    }                                                                                                                              \
    bool GOMP_loop_ull_##NAME##_next(unsigned long long* istart, unsigned long long* iend)                                         \
    {                                                                                                                              \
        return ws_next_ull(ws_current(false, nullptr), istart, iend, true);                                                        \
    }
MCOMP_LOOP_LONG(dynamic, false)
MCOMP_LOOP_LONG(nonmonotonic_dynamic, false)
MCOMP_LOOP_LONG(guided, true)
MCOMP_LOOP_LONG(nonmonotonic_guided, true)
MCOMP_LOOP_ULL(dynamic, false)
MCOMP_LOOP_ULL(nonmonotonic_dynamic, false)
MCOMP_LOOP_ULL(guided, true)
MCOMP_LOOP_ULL(nonmonotonic_guided, true)
void GOMP_loop_end(void)
{
    GOMP_barrier();
}
void GOMP_loop_end_nowait(void)
{
}
bool GOMP_loop_runtime_start(void)
{
    unsupported("schedule(runtime)");
    return false;
}
bool GOMP_loop_maybe_nonmonotonic_runtime_start(void)
{
    unsupported("schedule(runtime)");
    return false;
}
void GOMP_sections_start(void)
{
    unsupported("sections");
}

int omp_get_thread_num(void)
{
    return g_frames.n ? g_frames[g_frames.n - 1].thread_num : 0;
}
int omp_get_num_threads(void)
{
    return g_frames.n ? g_frames[g_frames.n - 1].num_threads : 1;
}
void omp_set_num_threads(int n)
{
    if (n <= 0)
        return;
    if (g_frames.n)
        g_frames[g_frames.n - 1].icv = n;
    else
        g_icv = n;
}
int omp_get_max_threads(void)
{
    return g_frames.n ? g_frames[g_frames.n - 1].icv : g_icv;
}
int omp_in_parallel(void)
{
    return g_active != nullptr;
}
int omp_get_num_procs(void)
{
    return 16;
}
double omp_get_wtime(void)
{
    return 0.0;
}

// ============================================================================================
// ThreadSanitizer compiler callbacks
// ============================================================================================
#define RA __builtin_return_address(0)
void __tsan_init(void)
{
}
void __tsan_func_entry(void*)
{
}
void __tsan_func_exit(void)
{
}
void __tsan_read1(void* a)
{
    logAccess((uint64_t)a, 1, false, RA);
}
void __tsan_read2(void* a)
{
    logAccess((uint64_t)a, 2, false, RA);
}
void __tsan_read4(void* a)
{
    logAccess((uint64_t)a, 4, false, RA);
}
void __tsan_read8(void* a)
{
    logAccess((uint64_t)a, 8, false, RA);
}
void __tsan_read16(void* a)
{
    logAccess((uint64_t)a, 16, false, RA);
}
void __tsan_write1(void* a)
{
    logAccess((uint64_t)a, 1, true, RA);
}
void __tsan_write2(void* a)
{
    logAccess((uint64_t)a, 2, true, RA);
}
void __tsan_write4(void* a)
{
    logAccess((uint64_t)a, 4, true, RA);
}
void __tsan_write8(void* a)
{
    logAccess((uint64_t)a, 8, true, RA);
}
void __tsan_write16(void* a)
{
    logAccess((uint64_t)a, 16, true, RA);
}
void __tsan_unaligned_read2(void* a)
{
    logAccess((uint64_t)a, 2, false, RA);
}
void __tsan_unaligned_read4(void* a)
{
    logAccess((uint64_t)a, 4, false, RA);
}
void __tsan_unaligned_read8(void* a)
{
    logAccess((uint64_t)a, 8, false, RA);
}
void __tsan_unaligned_read16(void* a)
{
    logAccess((uint64_t)a, 16, false, RA);
}
void __tsan_unaligned_write2(void* a)
{
    logAccess((uint64_t)a, 2, true, RA);
}
void __tsan_unaligned_write4(void* a)
{
    logAccess((uint64_t)a, 4, true, RA);
}
void __tsan_unaligned_write8(void* a)
{
    logAccess((uint64_t)a, 8, true, RA);
}
void __tsan_unaligned_write16(void* a)
{
    logAccess((uint64_t)a, 16, true, RA);
}
void __tsan_read_range(void* a, unsigned long n)
{
    logAccess((uint64_t)a, n, false, RA);
}
void __tsan_write_range(void* a, unsigned long n)
{
    logAccess((uint64_t)a, n, true, RA);
}
void __tsan_vptr_update(void** vp, void*)
{
    logAccess((uint64_t)vp, 8, true, RA);
}
void __tsan_vptr_read(void** vp)
{
    logAccess((uint64_t)vp, 8, false, RA);
}
// atomics (the reduction epilogues use an atomic load + compare-and-swap): never a data race
long __tsan_atomic64_load(const volatile long* a, int)
{
    return *a;
}
int __tsan_atomic32_load(const volatile int* a, int)
{
    return *a;
}
void __tsan_atomic64_store(volatile long* a, long v, int)
{
    *a = v;
}
void __tsan_atomic32_store(volatile int* a, int v, int)
{
    *a = v;
}
int __tsan_atomic64_compare_exchange_strong(volatile long* a, long* c, long v, int, int)
{
    if (*a == *c) {
        *a = v;
        return 1;
    }
    *c = *a;
    return 0;
}
int __tsan_atomic64_compare_exchange_weak(volatile long* a, long* c, long v, int m1, int m2)
{
    return __tsan_atomic64_compare_exchange_strong(a, c, v, m1, m2);
}
long __tsan_atomic64_fetch_add(volatile long* a, long v, int)
{
    long o = *a;
    *a     = o + v;
    return o;
}
int __tsan_atomic32_fetch_add(volatile int* a, int v, int)
{
    int o = *a;
    *a    = o + v;
    return o;
}
void __tsan_atomic_thread_fence(int)
{
}
void __tsan_atomic_signal_fence(int)
{
}

// ============================================================================================
// libc data movers: GCC's TSan pass leaves std::copy/std::move/std::fill of trivially copyable data to the runtime's
// interceptors; without them the line smoothers' "publish the result" std::move would be invisible.
// ============================================================================================
void* memcpy(void* d, const void* s, size_t n)
{
    if (g_active && g_member >= 0 && g_running && n) {
        g_st->memops++;
        logAccess((uint64_t)s, n, false, RA);
        logAccess((uint64_t)d, n, true, RA);
    }
    char* dd       = (char*)d;
    const char* ss = (const char*)s;
    for (size_t i = 0; i < n; i++)
        dd[i] = ss[i];
    return d;
}
void* memmove(void* d, const void* s, size_t n)
{
    if (g_active && g_member >= 0 && g_running && n) {
        g_st->memops++;
        logAccess((uint64_t)s, n, false, RA);
        logAccess((uint64_t)d, n, true, RA);
    }
    char* dd       = (char*)d;
    const char* ss = (const char*)s;
    if (dd < ss || dd >= ss + n)
        for (size_t i = 0; i < n; i++)
            dd[i] = ss[i];
    else
        for (size_t i = n; i-- > 0;)
            dd[i] = ss[i];
    return d;
}
void* memset(void* d, int c, size_t n)
{
    if (g_active && g_member >= 0 && g_running && n) {
        g_st->memops++;
        logAccess((uint64_t)d, n, true, RA);
    }
    volatile char* dd = (volatile char*)d;
    for (size_t i = 0; i < n; i++)
        dd[i] = (char)c;
    return d;
}
} // extern "C"

// ============================================================================================
// replaced global allocation functions (quarantine inside multi-member regions)
// ============================================================================================
void* operator new(size_t n)
{
    return trackedAlloc(n);
}
void* operator new[](size_t n)
{
    return trackedAlloc(n);
}
void* operator new(size_t n, const std::nothrow_t&) noexcept
{
    try {
        return trackedAlloc(n);
    }
    catch (...) {
        return nullptr;
    }
}
void* operator new[](size_t n, const std::nothrow_t&) noexcept
{
    try {
        return trackedAlloc(n);
    }
    catch (...) {
        return nullptr;
    }
}
void operator delete(void* p) noexcept
{
    trackedFree(p);
}
void operator delete[](void* p) noexcept
{
    trackedFree(p);
}
void operator delete(void* p, size_t) noexcept
{
    trackedFree(p);
}
void operator delete[](void* p, size_t) noexcept
{
    trackedFree(p);
}
