// mc_harness: drivers for the OpenMP schedule explorer (C11 / C12).  This translation unit and the repository libraries
// are compiled with -fopenmp -fsanitize=thread; it is linked either with engines/mcomp/mcomp.o (explorer) or, when
// built with -DMCOMP_FREE, with the real libgomp and no-op TSan stubs (free-running differential).
//
// usage: mc_harness <resultfile> <binfile> < cases
// case keys: id op T bound perms(all|few) audit  + grid/problem keys of hcommon.h / gmgcfg.h
#include <functional>

#include "gmgcfg.h"
#ifndef MCOMP_FREE
    #include "mcomp/mcomp.h"
#endif

using namespace vh;

static FILE* g_res = nullptr;

struct OpResult {
    std::vector<double> y; // concatenated output vectors (compared bitwise across schedules)
    std::vector<double> scalars; // reduction results (may legitimately differ between schedules)
};

static void append(std::vector<double>& y, const Vector<double>& v)
{
    y.insert(y.end(), v.begin(), v.end());
}
static void append(std::vector<double>& y, const std::vector<double>& v)
{
    y.insert(y.end(), v.begin(), v.end());
}

static Vector<double> genVec(int n, uint64_t seed)
{
    Vector<double> v(n);
    for (int i = 0; i < n; i++)
        v[i] = 0.01 * filler(seed, i) + 1e-3 * (i % 17);
    return v;
}

// ------------------------------------------------------------------------------------------
// operators
// ------------------------------------------------------------------------------------------
static OpResult runOp(const Case& c)
{
    const std::string op = c.str("op");
    const int T          = c.i("T", 2);
    const bool dirbc     = c.i("dirbc", 0) != 0;
    OpResult R;
    omp_set_num_threads(T);

    if (op == "vector") {
        const int n = c.i("n", 10001);
        Vector<double> x = genVec(n, 3), y = genVec(n, 4);
        Vector<double> a = x;
        assign(a, 2.5);
        append(R.y, a);
        a = x;
        add(a, y);
        append(R.y, a);
        a = x;
        subtract(a, y);
        append(R.y, a);
        a = x;
        linear_combination(a, 1.25, y, -0.75);
        append(R.y, a);
        a = x;
        multiply(a, 3.0);
        append(R.y, a);
        Vector<double> cpy(x); // copy constructor
        append(R.y, cpy);
        Vector<double> asg(n);
        asg = y; // copy assignment
        append(R.y, asg);
        R.scalars.push_back(dot_product(x, y));
        R.scalars.push_back(l1_norm(x));
        R.scalars.push_back(l2_norm_squared(x));
        R.scalars.push_back(infinity_norm(x));
        // long-double references (appended so that the oracle can judge every arrival order)
        long double d = 0, l1 = 0, l2 = 0, li = 0, sd = 0, s2 = 0;
        for (int i = 0; i < n; i++) {
            d += (long double)x[i] * y[i];
            sd += fabsl((long double)x[i] * y[i]);
            l1 += fabsl((long double)x[i]);
            l2 += (long double)x[i] * x[i];
            s2 += (long double)x[i] * x[i];
            li = std::max(li, fabsl((long double)x[i]));
        }
        R.scalars.push_back((double)d);
        R.scalars.push_back((double)l1);
        R.scalars.push_back((double)l2);
        R.scalars.push_back((double)li);
        R.scalars.push_back((double)sd);
        // element-wise kernels against their definition (the cross-thread-count comparison cannot see a kernel whose
        // 'n > threshold' branch is wrong for every thread count): worst deviation per kernel, 0 expected for the exact ones
        {
            double dAssign = 0, dAdd = 0, dSub = 0, dLin = 0, dMul = 0, dCpy = 0, dAsg = 0, dAddM = 0;
            Vector<double> am = x;
            add(am, y, n - 1); // threshold below n: parallel branch
            Vector<double> am2 = x;
            add(am2, y, n); // threshold at n: sequential branch
            for (int i = 0; i < n; i++) {
                const size_t o = (size_t)i;
                dAssign        = std::max(dAssign, std::fabs(R.y[o] - 2.5));
                dAdd           = std::max(dAdd, std::fabs(R.y[n + o] - (x[i] + y[i])));
                dSub           = std::max(dSub, std::fabs(R.y[2 * (size_t)n + o] - (x[i] - y[i])));
                long double l  = 1.25L * x[i] - 0.75L * y[i];
                long double sc = fabsl(1.25L * x[i]) + fabsl(0.75L * y[i]);
                if (sc > 0)
                    dLin = std::max(dLin, (double)(fabsl((long double)R.y[3 * (size_t)n + o] - l) / sc));
                dMul  = std::max(dMul, std::fabs(R.y[4 * (size_t)n + o] - 3.0 * x[i]));
                dCpy  = std::max(dCpy, std::fabs(R.y[5 * (size_t)n + o] - x[i]));
                dAsg  = std::max(dAsg, std::fabs(R.y[6 * (size_t)n + o] - y[i]));
                dAddM = std::max(dAddM, std::max(std::fabs(am[i] - (x[i] + y[i])), std::fabs(am2[i] - (x[i] + y[i]))));
            }
            Vector<double> xe = x;
            bool eqOk         = equals(xe, x);
            xe[n - 1] += 1.0;
            eqOk = eqOk && !equals(xe, x);
            xe[n - 1] = x[n - 1];
            xe[0] -= 1.0;
            eqOk = eqOk && !equals(xe, x);
            for (double v : {dAssign, dAdd, dSub, dLin, dMul, dCpy, dAsg, dAddM, eqOk ? 0.0 : 1.0})
                R.scalars.push_back(v);
        }
        return R;
    }
    if (op.rfind("st_", 0) == 0) {
        // engine self-tests: tiny kernels with a known verdict (suffix _ok: race free; _bad: a data race), so that every run of C11
        // shows the race oracle detecting what it must and excusing what it must
        const int n = 64;
        std::vector<double> a(n, 1.0), b(n, 0.0);
        double acc = 0.0;
        double* pa = a.data();
        double* pb = b.data();
        if (op == "st_disjoint_ok") {
#pragma omp parallel for
            for (int i = 0; i < n; i++)
                pb[i] = 2 * pa[i];
        }
        else if (op == "st_neighbour_write_bad") {
#pragma omp parallel for
            for (int i = 0; i < n - 1; i++) {
                pb[i] += pa[i];
                pb[i + 1] += 0.5 * pa[i]; // the first iteration of the next chunk belongs to another member
            }
        }
        else if (op == "st_nowait_bad") {
#pragma omp parallel
            {
#pragma omp for nowait
                for (int i = 0; i < n; i++)
                    pb[i] = pa[i];
#pragma omp for
                for (int i = 0; i < n; i++)
                    pa[n - 1 - i] = pb[i]; // reads what another member's first loop may not have written yet
            }
        }
        else if (op == "st_barrier_ok") {
#pragma omp parallel
            {
#pragma omp for
                for (int i = 0; i < n; i++)
                    pb[i] = pa[i];
#pragma omp for
                for (int i = 0; i < n; i++)
                    pa[n - 1 - i] = pb[i];
            }
        }
        else if (op == "st_reduction_ok") {
#pragma omp parallel for reduction(+ : acc)
            for (int i = 0; i < n; i++)
                acc += pa[i] * (i + 1);
        }
        else if (op == "st_shared_accumulator_bad") {
#pragma omp parallel for
            for (int i = 0; i < n; i++)
                acc += pa[i] * (i + 1);
        }
        else if (op == "st_critical_ok") {
#pragma omp parallel for
            for (int i = 0; i < n; i++) {
#pragma omp critical
                {
                    if (pa[i] * (i + 1) > acc)
                        acc = pa[i] * (i + 1);
                }
            }
        }
        else if (op == "st_critical_check_outside_bad") {
#pragma omp parallel for
            for (int i = 0; i < n; i++) {
                if (pa[i] * (i + 1) > acc) {
#pragma omp critical
                    acc = pa[i] * (i + 1);
                }
            }
        }
        else if (op == "st_named_critical_ok") {
#pragma omp parallel for
            for (int i = 0; i < n; i++) {
#pragma omp critical(accumulate)
                acc += pa[i];
            }
        }
        else if (op == "st_two_names_bad") {
#pragma omp parallel for
            for (int i = 0; i < n; i++) {
                if (i % 2) {
#pragma omp critical(odd)
                    acc += pa[i];
                }
                else {
#pragma omp critical(even)
                    acc += pa[i];
                }
            }
        }
        else if (op == "st_atomic_ok") {
#pragma omp parallel for
            for (int i = 0; i < n; i++) {
#pragma omp atomic
                acc += pa[i];
            }
        }
        else if (op == "st_single_ok") {
#pragma omp parallel
            {
#pragma omp single
                acc = 42.0;
                // implicit barrier
#pragma omp for
                for (int i = 0; i < n; i++)
                    pb[i] = acc + pa[i];
            }
        }
        else if (op == "st_single_nowait_bad") {
#pragma omp parallel
            {
#pragma omp single nowait
                acc = 42.0;
#pragma omp for
                for (int i = 0; i < n; i++)
                    pb[i] = acc + pa[i];
            }
        }
        else if (op == "st_private_scratch_ok") {
#pragma omp parallel
            {
                std::vector<double> scratch(8, 0.0);
#pragma omp for
                for (int i = 0; i < n; i++) {
                    scratch[i % 8] = pa[i];
                    pb[i]          = scratch[i % 8] + 1;
                }
            }
        }
        else if (op == "st_shared_scratch_bad") {
            std::vector<double> scratch(8, 0.0);
            double* ps = scratch.data();
#pragma omp parallel
            {
#pragma omp for
                for (int i = 0; i < n; i++) {
                    ps[i % 8] = pa[i];
                    pb[i]     = ps[i % 8] + 1;
                }
            }
        }
        else if (op == "st_dynamic_ok" || op == "st_guided_ok" || op == "st_dynamic_ull_ok" || op == "st_dynamic_for_ok" ||
                 op == "st_dynamic_serial_ok") {
            // every iteration exactly once, whatever the schedule kind / loop variable type / combined or not
            if (op == "st_dynamic_ok") {
#pragma omp parallel for schedule(dynamic)
                for (int i = 0; i < n; i++)
                    pb[i] += 1.0;
            }
            else if (op == "st_guided_ok") {
#pragma omp parallel for schedule(guided, 2)
                for (int i = n - 1; i >= 0; i--)
                    pb[i] += 1.0;
            }
            else if (op == "st_dynamic_ull_ok") {
#pragma omp parallel for schedule(dynamic, 3)
                for (std::size_t i = 0; i < (std::size_t)n; i++)
                    pb[i] += 1.0;
            }
            else if (op == "st_dynamic_for_ok") {
#pragma omp parallel
                {
#pragma omp for schedule(dynamic, 5) nowait
                    for (int i = 0; i < n / 2; i++)
                        pb[i] += 1.0;
#pragma omp for schedule(dynamic, 1)
                    for (int i = n / 2; i < n; i++)
                        pb[i] += 1.0;
                }
            }
            else {
#pragma omp parallel for schedule(dynamic) if (n > 1000)
                for (int i = 0; i < n; i++)
                    pb[i] += 1.0;
            }
            for (int i = 0; i < n; i++)
                if (pb[i] != 1.0)
                    throw std::runtime_error("iteration " + std::to_string(i) + " executed " + std::to_string((int)pb[i]) + " times");
        }
        else if (op == "st_dynamic_neighbour_bad") {
#pragma omp parallel for schedule(dynamic)
            for (int i = 0; i < n - 1; i++) {
                pb[i] += pa[i];
                pb[i + 1] += 0.5 * pa[i];
            }
        }
        else
            throw std::runtime_error("unknown self-test " + op);
        R.y.insert(R.y.end(), a.begin(), a.end());
        R.y.insert(R.y.end(), b.begin(), b.end());
        R.scalars.push_back(acc);
        return R;
    }
    if (op == "solver") {
        Cfg k     = Cfg::fromCase(c);
        k.threads = T;
        auto s    = makeSolver(k);
        s->setup();
        s->solve();
        append(R.y, s->solution());
        R.y.push_back((double)s->numberOfIterations());
        for (double v : s->residual_norms_)
            R.scalars.push_back(v);
        for (size_t d = 0; d < s->threads_per_level_.size(); d++)
            R.y.push_back((double)s->threads_per_level_[d]);
        return R;
    }
    if (op == "threadtable") {
        // threads per level for a range of (T, factor): y = table
        for (int t = 1; t <= 32; t++)
            for (double f : {0.1, 0.25, 0.5, 0.75, 1.0}) {
                Cfg k      = Cfg::fromCase(c);
                k.threads  = t;
                k.tfactor  = f;
                k.maxit    = 0;
                auto s     = makeSolver(k);
                s->setup();
                for (size_t d = 0; d < s->threads_per_level_.size(); d++)
                    R.y.push_back((double)s->threads_per_level_[d]);
                R.y.push_back(-1.0);
            }
        return R;
    }

    Problem p      = Problem::fromCase(c);
    PolarGrid grid = gridFromCase(c);
    const int N    = grid.numberOfNodes();
    omp_set_num_threads(T); // selecting the problem constructs a GMGPolar object, which resets the thread count to its default

    if (op == "levelcache") {
        for (int cc = 0; cc < 2; cc++)
            for (int cg = 0; cg < 2; cg++) {
                int nl = ((grid.nr() + 1) % 2 == 0 && (grid.nr() + 1) / 2 >= 3 && grid.ntheta() % 4 == 0) ? 2 : 1;
                Hierarchy H(grid, p, cc, cg, nl);
                for (int d = 0; d < nl; d++) {
                    const LevelCache& lc = H[d].levelCache();
                    append(R.y, lc.sin_theta());
                    append(R.y, lc.cos_theta());
                    append(R.y, lc.coeff_alpha());
                    append(R.y, lc.coeff_beta());
                    append(R.y, lc.arr());
                    append(R.y, lc.att());
                    append(R.y, lc.art());
                    append(R.y, lc.detDF());
                }
            }
        return R;
    }
    if (op == "transfers") {
        Hierarchy H(grid, p, true, true, 2);
        const Level& F  = H[0];
        const Level& Cc = H[1];
        const int Nf = F.grid().numberOfNodes(), Nc = Cc.grid().numberOfNodes();
        std::vector<int> tpl = {T, T};
        Interpolation I(tpl, dirbc);
        Vector<double> xf = genVec(Nf, 5), xc = genVec(Nc, 6), yf(Nf), yc(Nc);
        I.applyProlongation(Cc, F, yf, xc);
        append(R.y, yf);
        I.applyExtrapolatedProlongation(Cc, F, yf, xc);
        append(R.y, yf);
        I.applyFMGInterpolation(Cc, F, yf, xc);
        append(R.y, yf);
        I.applyRestriction(F, Cc, yc, xf);
        append(R.y, yc);
        I.applyExtrapolatedRestriction(F, Cc, yc, xf);
        append(R.y, yc);
        I.applyInjection(F, Cc, yc, xf);
        append(R.y, yc);
        I.applyProlongation0(Cc, F, yf, xc);
        append(R.y, yf);
        I.applyRestriction0(F, Cc, yc, xf);
        append(R.y, yc);
        I.applyExtrapolatedProlongation0(Cc, F, yf, xc);
        append(R.y, yf);
        I.applyExtrapolatedRestriction0(F, Cc, yc, xf);
        append(R.y, yc);
        return R;
    }

    const bool take = op.size() > 5 && op.substr(op.size() - 4) == "take";
    const int cc = take ? 1 : c.i("cc", 1), cg = take ? 1 : c.i("cg", 1);
    Hierarchy H(grid, p, cc, cg, 1);
    const Level& L  = H[0];
    Vector<double> x = genVec(N, 1), f = genVec(N, 2), t(N), y(N);

    if (op == "resid_give") {
        ResidualGive Rg(L.grid(), L.levelCache(), *p.geo, *p.coef, dirbc, T);
        Rg.computeResidual(y, f, x);
        append(R.y, y);
    }
    else if (op == "resid_take") {
        ResidualTake Rt(L.grid(), L.levelCache(), *p.geo, *p.coef, dirbc, T);
        Rt.computeResidual(y, f, x);
        append(R.y, y);
    }
    else if (op == "smooth_give") {
        SmootherGive S(L.grid(), L.levelCache(), *p.geo, *p.coef, dirbc, T);
        S.smoothing(x, f, t);
        S.smoothing(x, f, t); // second sweep: factorised line solvers
        append(R.y, x);
    }
    else if (op == "smooth_take") {
        SmootherTake S(L.grid(), L.levelCache(), *p.geo, *p.coef, dirbc, T);
        S.smoothing(x, f, t);
        S.smoothing(x, f, t);
        append(R.y, x);
    }
    else if (op == "esmooth_give") {
        ExtrapolatedSmootherGive S(L.grid(), L.levelCache(), *p.geo, *p.coef, dirbc, T);
        S.extrapolatedSmoothing(x, f, t);
        S.extrapolatedSmoothing(x, f, t);
        append(R.y, x);
    }
    else if (op == "esmooth_take") {
        ExtrapolatedSmootherTake S(L.grid(), L.levelCache(), *p.geo, *p.coef, dirbc, T);
        S.extrapolatedSmoothing(x, f, t);
        S.extrapolatedSmoothing(x, f, t);
        append(R.y, x);
    }
    else if (op == "ds_give") {
        DirectSolverGiveCustomLU D(L.grid(), L.levelCache(), *p.geo, *p.coef, dirbc, T);
        const SparseMatrixCSR<double>& M = D.solver_matrix_;
        for (int k = 0; k < M.non_zero_size(); k++)
            R.y.push_back(M.values_data()[k]);
        D.solveInPlace(f);
        append(R.y, f);
    }
    else if (op == "ds_take") {
        DirectSolverTakeCustomLU D(L.grid(), L.levelCache(), *p.geo, *p.coef, dirbc, T);
        const SparseMatrixCSR<double>& M = D.solver_matrix_;
        for (int k = 0; k < M.non_zero_size(); k++)
            R.y.push_back(M.values_data()[k]);
        D.solveInPlace(f);
        append(R.y, f);
    }
    else {
        fprintf(stderr, "unknown op %s\n", op.c_str());
        exit(4);
    }
    return R;
}

static uint64_t hashD(const std::vector<double>& v)
{
    return v.empty() ? 0 : hashBytes(v.data(), v.size() * sizeof(double));
}

// ------------------------------------------------------------------------------------------
// schedule enumeration
// ------------------------------------------------------------------------------------------
static bool g_revOnly = false;
static std::vector<std::vector<int>> alternatives(int n, bool all)
{
    std::vector<std::vector<int>> out;
    std::vector<int> id(n);
    for (int i = 0; i < n; i++)
        id[i] = i;
    if (n < 2)
        return out;
    if (all && n <= 4) {
        std::vector<int> p = id;
        while (std::next_permutation(p.begin(), p.end()))
            out.push_back(p);
        return out;
    }
    std::vector<int> rev(id.rbegin(), id.rend());
    out.push_back(rev);
    if (g_revOnly)
        return out;
    for (int r : {1, n / 2, n - 1}) {
        if (r <= 0 || r >= n)
            continue;
        std::vector<int> p(n);
        for (int i = 0; i < n; i++)
            p[i] = (i + r) % n;
        if (std::find(out.begin(), out.end(), p) == out.end() && p != id)
            out.push_back(p);
    }
    if (all)
        for (int r = 2; r < n - 1; r++) {
            std::vector<int> p(n);
            for (int i = 0; i < n; i++)
                p[i] = (i + r) % n;
            if (std::find(out.begin(), out.end(), p) == out.end())
                out.push_back(p);
        }
    return out;
}

int main(int argc, char** argv)
{
    if (argc < 3) {
        fprintf(stderr, "usage: mc_harness <resultfile> <binfile> < cases\n");
        return 2;
    }
    g_res = fopen(argv[1], "w");
    Out bin(argv[2]);
    std::string line;
    while (std::getline(std::cin, line)) {
        if (line.empty() || line[0] == '#')
            continue;
        Case c               = Case::parse(line);
        const std::string id = c.str("id", "case");
        fprintf(g_res, "BEGIN id=%s\n", id.c_str());
        fflush(g_res);
        std::ostringstream os;
        os << "RES id=" << id << " ";
        try {
#ifdef MCOMP_FREE
            // free-running on real threads with the real libgomp: repeat and require bit-identical outputs
            OpResult r0 = runOp(c);
            int reps = c.i("reps", 3), same = 1;
            std::set<uint64_t> scal;
            scal.insert(hashD(r0.scalars));
            for (int k = 1; k < reps; k++) {
                OpResult r = runOp(c);
                if (hashD(r.y) != hashD(r0.y))
                    same = 0;
                scal.insert(hashD(r.scalars));
            }
            bin.mat(id + "/y", 1, (uint32_t)r0.y.size(), r0.y.data());
            bin.mat(id + "/s", 1, (uint32_t)r0.scalars.size(), r0.scalars.data());
            os << "status=ok mode=free reps=" << reps << " same=" << same << " out=" << hashD(r0.y) << " nscal=" << scal.size();
#else
            const int bound  = c.i("bound", 1);
            const bool all   = c.str("perms", "few") == "all";
            g_revOnly        = c.str("perms", "few") == "rev";
            const bool audit = c.i("audit", 0) != 0;
            long schedules = 0, epochs = 0, blocks = 0, accesses = 0, conflicts = 0, granules = 0, pairs = 0, writerEpochs = 0, criticals = 0, dynChunks = 0,
                 memops = 0, auditBlocks = 0, auditUnlogged = 0, regions = 0, sigMismatch = 0, outMismatch = 0;
            std::set<uint64_t> outs, scalarSets;
            std::vector<std::vector<double>> scalarVals;
            std::string conflictText, badSchedule;
            bool diverged = false;

            auto runWith = [&](const std::vector<std::pair<int, std::vector<int>>>& sched, bool aud, mcomp::RunStats& st,
                               OpResult& r) {
                mcomp::begin_run(sched, aud);
                r  = runOp(c);
                st = mcomp::end_run();
                schedules++;
                epochs += st.multi_epochs;
                blocks += st.blocks;
                accesses += st.accesses;
                conflicts += st.conflicts;
                granules += st.granules;
                pairs += st.pair_checks;
                writerEpochs += st.writer_epochs;
                criticals += st.critical_sections;
                dynChunks += st.dynamic_chunks;
                memops += st.memops;
                auditBlocks += st.audit_blocks;
                auditUnlogged += st.audit_unlogged_bytes;
                regions += st.regions;
                if (mcomp::replay_diverged())
                    diverged = true;
                if (st.conflicts && conflictText.empty()) {
                    std::ostringstream cs;
                    for (auto& cf : st.first_conflicts)
                        cs << "[epoch" << cf.epoch << ",m" << cf.member_a << (cf.a_write ? "W" : "R") << "@" << cf.pc_a << ",m"
                           << cf.member_b << (cf.b_write ? "W" : "R") << "@" << cf.pc_b << ",blk" << cf.alloc_id << "+"
                           << cf.alloc_off << "/" << cf.alloc_size << "]";
                    conflictText = cs.str();
                    std::ostringstream ss;
                    for (auto& e : sched) {
                        ss << e.first << ":";
                        for (size_t i = 0; i < e.second.size(); i++)
                            ss << (i ? "." : "") << e.second[i];
                        ss << ";";
                    }
                    badSchedule = ss.str().empty() ? "identity" : ss.str();
                }
            };
            mcomp::RunStats base;
            OpResult r0;
            runWith({}, audit, base, r0);
            // NOTE: everything allocated during a run lives in the runtime's arena and is only valid until the next run
            const uint64_t baseOut = hashD(r0.y);
            outs.insert(baseOut);
            scalarSets.insert(hashD(r0.scalars));
            scalarVals.push_back(r0.scalars);
            bin.mat(id + "/y", 1, (uint32_t)r0.y.size(), r0.y.data());
            std::vector<std::pair<int, std::vector<int>>> replaySched;
            if (c.has("sched")) { // replay of one recorded schedule "e:p.p.p;e:p.p"
                std::istringstream is(c.str("sched"));
                std::string ent;
                while (std::getline(is, ent, ';')) {
                    auto q = ent.find(':');
                    if (q == std::string::npos)
                        continue;
                    std::vector<int> perm;
                    std::istringstream ps(ent.substr(q + 1));
                    std::string t;
                    while (std::getline(ps, t, '.'))
                        perm.push_back(std::stoi(t));
                    replaySched.push_back({std::stoi(ent.substr(0, q)), perm});
                }
                mcomp::RunStats st;
                OpResult r;
                runWith(replaySched, false, st, r);
                outs.insert(hashD(r.y));
                if (st.epoch_sig != base.epoch_sig)
                    sigMismatch++;
            }
            else if (bound >= 1 && base.conflicts == 0) {
                const int E = (int)base.epoch_members.size();
                std::vector<std::vector<std::vector<int>>> alts(E);
                for (int e = 0; e < E; e++)
                    alts[e] = alternatives(base.epoch_members[e], all);
                for (int e = 0; e < E; e++)
                    for (auto& perm : alts[e]) {
                        mcomp::RunStats st;
                        OpResult r;
                        runWith({{e, perm}}, false, st, r);
                        if (st.epoch_sig != base.epoch_sig)
                            sigMismatch++;
                        uint64_t h = hashD(r.y);
                        if (!outs.count(h))
                            outMismatch++;
                        outs.insert(h);
                        if (scalarSets.insert(hashD(r.scalars)).second)
                            scalarVals.push_back(r.scalars);
                    }
                if (bound >= 2) {
                    // two deviating epochs; reversal only (pairs of epochs x 1 permutation each)
                    for (int e1 = 0; e1 < E; e1++)
                        for (int e2 = e1 + 1; e2 < E; e2++) {
                            if (alts[e1].empty() || alts[e2].empty())
                                continue;
                            mcomp::RunStats st;
                            OpResult r;
                            runWith({{e1, alts[e1][0]}, {e2, alts[e2][0]}}, false, st, r);
                            if (st.epoch_sig != base.epoch_sig)
                                sigMismatch++;
                            uint64_t h = hashD(r.y);
                            if (!outs.count(h))
                                outMismatch++;
                            outs.insert(h);
                            if (scalarSets.insert(hashD(r.scalars)).second)
                                scalarVals.push_back(r.scalars);
                        }
                }
            }
            // all distinct scalar tuples (reduction results under different arrival orders)
            std::vector<double> flat;
            for (auto& v : scalarVals)
                flat.insert(flat.end(), v.begin(), v.end());
            bin.mat(id + "/s", (uint32_t)scalarVals.size(), (uint32_t)(scalarVals.empty() ? 0 : scalarVals[0].size()), flat.data());
            os << "status=ok mode=engine schedules=" << schedules << " regions=" << regions << " epochs=" << epochs
               << " baseepochs=" << base.multi_epochs << " blocks=" << blocks << " accesses=" << accesses << " granules=" << granules
               << " pairs=" << pairs << " criticals=" << criticals << " dynchunks=" << dynChunks << " writerepochs=" << writerEpochs << " memops=" << memops << " conflicts=" << conflicts
               << " sigmismatch=" << sigMismatch << " outmismatch=" << outMismatch << " distinctout=" << outs.size()
               << " distinctscal=" << scalarSets.size() << " auditblocks=" << auditBlocks << " auditunlogged=" << auditUnlogged
               << " diverged=" << diverged << " out=" << baseOut << " conflict=" << (conflictText.empty() ? "-" : conflictText)
               << " badsched=" << (badSchedule.empty() ? "-" : badSchedule);
#endif
        }
        catch (const std::exception& e) {
            std::string w = e.what();
            for (auto& ch : w)
                if (ch == ' ' || ch == '\n')
                    ch = '_';
            os << "status=exception what=" << w;
        }
        fprintf(g_res, "%s\n", os.str().c_str());
        fflush(g_res);
        bin.flush();
    }
    fclose(g_res);
    return 0;
}
