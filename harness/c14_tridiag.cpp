// C14: exhaustive enumeration of SPD (cyclic) tridiagonal systems x solve histories on the real
// SymmetricTridiagonalSolver, judged against a dense long-double reference.
//
// usage: c14_tridiag enumerate <quick|thorough> <part> <nparts>     (prints STAT/SAMPLE/VIOL lines)
//        c14_tridiag replay  < spec-lines                            (same check on given systems)
#include <map>
#include <algorithm>
#include <cinttypes>
#include <cmath>
#include <cstdio>
#include <cstring>
#include <set>
#include <sstream>
#include <string>
#include <vector>

#include "LinearAlgebra/symmetricTridiagonalSolver.h"
#include "LinearAlgebra/diagonalSolver.h"

typedef long double LD;

struct Sys {
    int n;
    bool cyclic;
    std::vector<double> d, s; // diagonal (n), sub-diagonal (n-1)
    double corner = 0.0;
    std::string family;
};

static long g_systems = 0, g_spd = 0, g_solves = 0, g_viol = 0, g_hist = 0, g_assign = 0;
static double g_worst_nc = 0, g_worst_cy = 0, g_worst_diag = 0;
static std::set<std::string> g_distinct;
static int g_samples = 0;

static std::string specOf(const Sys& A)
{
    std::ostringstream os;
    os.precision(17);
    os << "n=" << A.n << " cyclic=" << (A.cyclic ? 1 : 0) << " d=";
    for (int i = 0; i < A.n; i++)
        os << (i ? "," : "") << A.d[i];
    os << " s=";
    for (int i = 0; i + 1 < A.n; i++)
        os << (i ? "," : "") << A.s[i];
    os << " corner=" << A.corner << " family=" << A.family;
    return os.str();
}

// dense matrix of the system the solver is documented to represent
static std::vector<LD> dense(const Sys& A)
{
    int n = A.n;
    std::vector<LD> M((size_t)n * n, 0.0L);
    for (int i = 0; i < n; i++)
        M[(size_t)i * n + i] = A.d[i];
    for (int i = 0; i + 1 < n; i++) {
        M[(size_t)i * n + i + 1] += A.s[i];
        M[(size_t)(i + 1) * n + i] += A.s[i];
    }
    if (A.cyclic) {
        if (n == 1) {
        }
        else {
            M[(size_t)0 * n + (n - 1)] += A.corner;
            M[(size_t)(n - 1) * n + 0] += A.corner;
        }
    }
    return M;
}

// Cholesky in long double: returns smallest pivot ratio ( >0 iff SPD ), relative to the diagonal
static bool isSPD(const Sys& A, double minRatio)
{
    int n = A.n;
    std::vector<LD> M = dense(A);
    for (int j = 0; j < n; j++) {
        LD djj = M[(size_t)j * n + j];
        LD orig = djj;
        for (int k = 0; k < j; k++)
            djj -= M[(size_t)j * n + k] * M[(size_t)j * n + k];
        if (!(djj > 0))
            return false;
        if (djj < minRatio * fabsl(orig))
            return false; // too close to singular for a meaningful accuracy bound
        LD l = sqrtl(djj);
        M[(size_t)j * n + j] = l;
        for (int i = j + 1; i < n; i++) {
            LD v = M[(size_t)i * n + j];
            for (int k = 0; k < j; k++)
                v -= M[(size_t)i * n + k] * M[(size_t)j * n + k];
            M[(size_t)i * n + j] = v / l;
        }
    }
    return true;
}

static void loadSolver(SymmetricTridiagonalSolver<double>& S, const Sys& A)
{
    S.is_cyclic(A.cyclic);
    for (int i = 0; i < A.n; i++)
        S.main_diagonal(i) = A.d[i];
    for (int i = 0; i + 1 < A.n; i++)
        S.sub_diagonal(i) = A.s[i];
    if (A.cyclic)
        S.cyclic_corner_element() = A.corner;
}

// componentwise backward error  max_i |Ax-b|_i / (n eps (|A||x|+|b|)_i)
static double backwardRatio(const Sys& A, const std::vector<LD>& M, const std::vector<double>& x,
                            const std::vector<double>& b, bool normwise)
{
    int n = A.n;
    const LD eps = 1.1102230246251565e-16L;
    LD worst = 0;
    LD normA = 0, normx = 0, normb = 0;
    for (int i = 0; i < n; i++) {
        LD rs = 0;
        for (int j = 0; j < n; j++)
            rs += fabsl(M[(size_t)i * n + j]);
        normA = std::max(normA, rs);
        normx = std::max(normx, (LD)fabs(x[i]));
        normb = std::max(normb, (LD)fabs(b[i]));
    }
    for (int i = 0; i < n; i++) {
        LD r = -(LD)b[i], sc = fabsl((LD)b[i]);
        for (int j = 0; j < n; j++) {
            r += M[(size_t)i * n + j] * (LD)x[j];
            sc += fabsl(M[(size_t)i * n + j]) * fabsl((LD)x[j]);
        }
        if (normwise)
            sc = normA * normx + normb;
        // results that decay into the subnormal range carry absolute, not relative, rounding errors
        sc += 1e-290L * std::max((LD)1.0, normA);
        if (!std::isfinite((double)r))
            return 1e300;
        if (sc == 0) {
            if (r != 0)
                return 1e300;
            continue;
        }
        worst = std::max(worst, fabsl(r) / (n * eps * sc));
    }
    return (double)worst;
}

static void emitViol(const std::string& key, const std::string& what, const Sys& A, const std::string& extra)
{
    g_viol++;
    if (g_viol <= 40)
        printf("VIOL %s | %s | %s %s\n", key.c_str(), what.c_str(), specOf(A).c_str(), extra.c_str());
}

static double THR_NC = 64.0, THR_CY = 128.0;

// The check proper: all unit right-hand sides + one dense one, then histories of repeated solves on ONE object
static void checkSystem(const Sys& A, int histDepth)
{
    g_systems++;
    const int n = A.n;
    if (!isSPD(A, 1e-6))
        return;
    g_spd++;
    std::vector<LD> M = dense(A);

    std::vector<std::vector<double>> rhs;
    for (int j = 0; j < n && j < 12; j++) {
        std::vector<double> b(n, 0.0);
        b[(n <= 12) ? j : (j * (n - 1)) / 11] = 1.0;
        rhs.push_back(b);
    }
    {
        std::vector<double> b(n);
        for (int i = 0; i < n; i++)
            b[i] = (i % 3 == 0 ? 1.0 : (i % 3 == 1 ? -2.5 : 0.125)) * (1 + i % 5);
        rhs.push_back(b);
    }

    // uniformly tiny and huge right-hand sides: the backward error is scale invariant, an absolute threshold is not
    for (double scl : {1e-30, 1e30}) {
        std::vector<double> b = rhs.back();
        for (auto& v : b)
            v *= scl;
        rhs.push_back(b);
    }
    std::vector<double> t1(n), t2(n);
    // (a) every right-hand side on ONE solver object, in sequence: first solve factorises, later ones reuse
    SymmetricTridiagonalSolver<double> S(n);
    loadSolver(S, A);
    std::vector<std::vector<double>> firstResult;
    for (size_t k = 0; k < rhs.size(); k++) {
        std::vector<double> x = rhs[k];
        S.solveInPlace(x.data(), t1.data(), A.cyclic ? t2.data() : nullptr);
        g_solves++;
        double ratio = backwardRatio(A, M, x, rhs[k], A.cyclic);
        double& w     = A.cyclic ? g_worst_cy : g_worst_nc;
        w             = std::max(w, ratio);
        if (ratio > (A.cyclic ? THR_CY : THR_NC)) {
            std::ostringstream os;
            os << "rhs=" << k << " ratio=" << ratio;
            emitViol(std::string("residual:") + (A.cyclic ? "cyclic" : "plain") + (k == 0 ? ":first" : ":later"),
                     "A x != b beyond backward-stable accuracy (solve #" + std::to_string(k) + " on one object)", A,
                     os.str());
            return;
        }
        firstResult.push_back(x);
        // (b) a fresh object must return bit-identical x for the same right-hand side (later solves on a
        //     factorised object behave like the first solve of a fresh one)
        if (k > 0) {
            SymmetricTridiagonalSolver<double> F(n);
            loadSolver(F, A);
            std::vector<double> y = rhs[k];
            F.solveInPlace(y.data(), t1.data(), A.cyclic ? t2.data() : nullptr);
            g_solves++;
            if (memcmp(y.data(), x.data(), sizeof(double) * n) != 0) {
                emitViol(std::string("history:fresh-vs-used:") + (A.cyclic ? "cyclic" : "plain"),
                         "solve on a used object differs bitwise from the same solve on a fresh object", A,
                         "rhs=" + std::to_string(k));
                return;
            }
        }
    }
    // (c) histories: repeat solves in every order of length <= histDepth over {rhs0, rhs_last}; results must be
    //     bit-identical to the first time that right-hand side was solved
    int ids[2] = {0, (int)rhs.size() - 3};
    for (int len = 1; len <= histDepth; len++) {
        for (int code = 0; code < (1 << len); code++) {
            g_hist++;
            for (int p = 0; p < len; p++) {
                int k                 = ids[(code >> p) & 1];
                std::vector<double> x = rhs[k];
                S.solveInPlace(x.data(), t1.data(), A.cyclic ? t2.data() : nullptr);
                g_solves++;
                if (memcmp(x.data(), firstResult[k].data(), sizeof(double) * n) != 0) {
                    std::ostringstream os;
                    os << "len=" << len << " code=" << code << " pos=" << p;
                    emitViol(std::string("history:repeat:") + (A.cyclic ? "cyclic" : "plain"),
                             "repeated solve with the same right-hand side is not bit-identical", A, os.str());
                    return;
                }
            }
        }
    }
    // (d) the same object takes over ANOTHER system: an object that has solved the previous SPD system P of this size is
    //     assigned a fresh solver holding A (copy and move), and a fresh object is assigned the used solver of A; each must
    //     then solve A exactly like a fresh object does ("every system, every time" includes how the system got there)
    {
        static std::map<int, Sys> prev;
        auto it = prev.find(n);
        if (it != prev.end()) {
            const Sys& P = it->second;
            const int k  = (int)rhs.size() - 3;
            for (int variant = 0; variant < 3; variant++) {
                SymmetricTridiagonalSolver<double> U(n);
                loadSolver(U, P);
                std::vector<double> w = rhs[k];
                U.solveInPlace(w.data(), t1.data(), P.cyclic ? t2.data() : nullptr); // U is factorised for P
                SymmetricTridiagonalSolver<double> F(n);
                loadSolver(F, A);
                SymmetricTridiagonalSolver<double> G(n);
                const char* name;
                SymmetricTridiagonalSolver<double>* target;
                if (variant == 0) {
                    U      = F; // copy-assign a fresh system into a used object
                    target = &U;
                    name   = "copy-into-used";
                }
                else if (variant == 1) {
                    U      = std::move(F);
                    target = &U;
                    name   = "move-into-used";
                }
                else {
                    G      = S; // S has solved A many times
                    target = &G;
                    name   = "copy-from-used";
                }
                std::vector<double> x = rhs[k];
                target->solveInPlace(x.data(), t1.data(), A.cyclic ? t2.data() : nullptr);
                g_solves++;
                g_assign++;
                if (memcmp(x.data(), firstResult[k].data(), sizeof(double) * n) != 0) {
                    emitViol(std::string("assign:") + name + (A.cyclic ? ":cyclic" : ":plain"),
                             "an object that was assigned this system solves it differently from a fresh object", A,
                             "previous system " + specOf(P));
                    return;
                }
            }
        }
        prev[n] = A;
    }
    if (g_distinct.size() < 200000)
        g_distinct.insert(specOf(A));
    if (g_samples < 3 && (g_spd % 977 == 1)) {
        g_samples++;
        printf("SAMPLE %s\n", specOf(A).c_str());
    }
}

static const double DIAGS[] = {2, 3, 10};
static const double SUBS[]  = {-1, 0, 0.5, 1};
static const double CORN[]  = {-1, 0, 1};

static long g_counter = 0;
static int g_part = 0, g_nparts = 1;
static bool mine()
{
    return (g_counter++ % g_nparts) == g_part;
}

static void scaledVariants(const Sys& A, int hist, bool all)
{
    // symmetric scalings D A D with D from {1e-5,1,1e5} patterns (r -> R0 produces such rows)
    int n = A.n;
    std::vector<std::vector<double>> Ds;
    Ds.push_back(std::vector<double>(n, 1.0));
    if (all) {
        std::vector<double> a(n), b(n), c(n), e(n);
        for (int i = 0; i < n; i++) {
            a[i] = (i == 0) ? 1e-5 : 1.0; // first row tiny
            b[i] = (i % 2) ? 1e5 : 1e-5; // alternating
            c[i] = pow(10.0, -5.0 + 10.0 * i / std::max(1, n - 1)); // ramp
            e[i] = (i == n - 1) ? 1e5 : 1.0; // last row huge
        }
        Ds.push_back(a);
        Ds.push_back(b);
        Ds.push_back(c);
        Ds.push_back(e);
        // uniformly huge magnitudes: every entry scaled by 1e+156 (squares of entries leave the double range, the quotients the
        // factorisation needs do not).  Uniformly tiny scalings are outside the solver's domain: it treats pivots below its absolute
        // equals() tolerance as zero (assertion), the same bound as F10 for the sparse LU.
        Ds.push_back(std::vector<double>(n, 1e78));
    }
    for (size_t k = 0; k < Ds.size(); k++) {
        if (!mine())
            continue;
        Sys B = A;
        for (int i = 0; i < n; i++)
            B.d[i] = A.d[i] * Ds[k][i] * Ds[k][i];
        for (int i = 0; i + 1 < n; i++)
            B.s[i] = A.s[i] * Ds[k][i] * Ds[k][i + 1];
        if (A.cyclic) {
            if (n == 2)
                B.corner = A.corner * Ds[k][0] * Ds[k][1];
            else
                B.corner = A.corner * Ds[k][0] * Ds[k][n - 1];
        }
        if (k)
            B.family = A.family + "+scale" + std::to_string(k);
        checkSystem(B, hist);
    }
}

static void enumerate(bool thorough)
{
    int hist = thorough ? 4 : 3;
    // --- n <= 4 (thorough: 5): the full alphabet product
    int nExh = thorough ? 5 : 4;
    for (int n = 2; n <= nExh; n++) {
        for (int cyc = 0; cyc < 2; cyc++) {
            long nd = 1, ns = 1;
            for (int i = 0; i < n; i++)
                nd *= 3;
            for (int i = 0; i + 1 < n; i++)
                ns *= 4;
            for (long cd = 0; cd < nd; cd++)
                for (long cs = 0; cs < ns; cs++)
                    for (int cc = 0; cc < (cyc ? 3 : 1); cc++) {
                        Sys A;
                        A.n      = n;
                        A.cyclic = cyc;
                        A.d.resize(n);
                        A.s.resize(n - 1);
                        long t = cd;
                        for (int i = 0; i < n; i++) {
                            A.d[i] = DIAGS[t % 3];
                            t /= 3;
                        }
                        t = cs;
                        for (int i = 0; i + 1 < n; i++) {
                            A.s[i] = SUBS[t % 4];
                            t /= 4;
                        }
                        A.corner = cyc ? CORN[cc] : 0.0;
                        A.family = "alphabet";
                        scaledVariants(A, hist, n <= 3 || (cd % 7 == 0 && cs % 5 == 0));
                    }
        }
    }
    // --- larger n: every "one irregular position" pattern over every base
    std::vector<int> ns;
    for (int n = nExh + 1; n <= (thorough ? 32 : 16); n++)
        ns.push_back(n);
    if (thorough) {
        ns.push_back(100);
        ns.push_back(1000);
    }
    for (int n : ns) {
        for (int cyc = 0; cyc < 2; cyc++)
            for (double bd : DIAGS)
                for (double bs : SUBS)
                    for (int cc = 0; cc < (cyc ? 3 : 1); cc++) {
                        Sys base;
                        base.n      = n;
                        base.cyclic = cyc;
                        base.d.assign(n, bd);
                        base.s.assign(n - 1, bs);
                        base.corner = cyc ? CORN[cc] : 0.0;
                        base.family = "base";
                        scaledVariants(base, hist, true);
                        int step = n > 40 ? n / 13 : 1;
                        for (int pos = 0; pos < n; pos += step) {
                            for (double od : DIAGS) {
                                if (od == bd)
                                    continue;
                                Sys A    = base;
                                A.d[pos] = od;
                                A.family = "irregular-diag@" + std::to_string(pos);
                                scaledVariants(A, hist, pos == 0 || pos == n - 1);
                            }
                            if (pos + 1 < n)
                                for (double os : SUBS) {
                                    if (os == bs)
                                        continue;
                                    Sys A    = base;
                                    A.s[pos] = os;
                                    A.family = "irregular-sub@" + std::to_string(pos);
                                    scaledVariants(A, hist, pos == 0 || pos == n - 2);
                                }
                        }
                    }
        // SPD but not diagonally dominant: second difference + eps, both signs of the coupling
        for (int cyc = 0; cyc < 2; cyc++)
            for (double e : {1.0, 1e-1, 1e-2, 1e-3})
                for (double sg : {-1.0, 1.0}) {
                    Sys A;
                    A.n      = n;
                    A.cyclic = cyc;
                    A.d.assign(n, 2.0 + e);
                    A.s.assign(n - 1, sg);
                    A.corner = cyc ? sg : 0.0;
                    A.family = "second-difference+eps";
                    scaledVariants(A, hist, true);
                }
    }
    // the same non-dominant family for the tiny n
    for (int n = 2; n <= nExh; n++)
        for (int cyc = 0; cyc < 2; cyc++)
            for (double e : {1.0, 1e-1, 1e-2, 1e-3})
                for (double sg : {-1.0, 1.0})
                    for (double cs : {-1.0, 0.0, 1.0}) {
                        Sys A;
                        A.n      = n;
                        A.cyclic = cyc;
                        A.d.assign(n, 2.0 + e + (n == 2 && cyc ? 1.0 : 0.0));
                        A.s.assign(n - 1, sg);
                        A.corner = cyc ? cs * sg : 0.0;
                        A.family = "second-difference+eps";
                        scaledVariants(A, hist, true);
                    }
}

// DiagonalSolver: x_i = b_i / d_i exactly, repeatedly
static void checkDiagonal(bool thorough)
{
    for (int n = 1; n <= (thorough ? 33 : 9); n++) {
        if (!mine())
            continue;
        DiagonalSolver<double> D(n);
        std::vector<double> d(n), b(n);
        for (int i = 0; i < n; i++) {
            d[i]          = (i % 2 ? 3.0 : 0.1) * pow(10.0, (i % 5) - 2);
            D.diagonal(i) = d[i];
            b[i]          = 1.0 + i * 0.37;
        }
        for (int rep = 0; rep < 3; rep++) {
            std::vector<double> x = b, t(n);
            D.solveInPlace(x.data());
            g_solves++;
            for (int i = 0; i < n; i++) {
                double ref = b[i] / d[i];
                double err = fabs(x[i] - ref) / (fabs(ref) * 2.220446049250313e-16);
                g_worst_diag = std::max(g_worst_diag, err);
                if (err > 2.0) {
                    Sys A;
                    A.n      = n;
                    A.cyclic = false;
                    A.d      = d;
                    A.s.assign(n > 0 ? n - 1 : 0, 0.0);
                    A.family = "DiagonalSolver";
                    emitViol("diagonal-solver", "DiagonalSolver result is not b_i/d_i", A,
                             "rep=" + std::to_string(rep));
                    return;
                }
            }
        }
    }
}

static std::vector<double> parseList(const std::string& s)
{
    std::vector<double> v;
    std::istringstream is(s);
    std::string t;
    while (std::getline(is, t, ','))
        if (!t.empty())
            v.push_back(strtod(t.c_str(), nullptr));
    return v;
}

int main(int argc, char** argv)
{
    std::string mode = argc > 1 ? argv[1] : "enumerate";
    if (mode == "replay") {
        char buf[1 << 16];
        while (fgets(buf, sizeof buf, stdin)) {
            std::istringstream is(buf);
            std::string tok;
            Sys A;
            A.n = 0;
            while (is >> tok) {
                auto p = tok.find('=');
                if (p == std::string::npos)
                    continue;
                std::string k = tok.substr(0, p), v = tok.substr(p + 1);
                if (k == "n")
                    A.n = atoi(v.c_str());
                else if (k == "cyclic")
                    A.cyclic = atoi(v.c_str());
                else if (k == "d")
                    A.d = parseList(v);
                else if (k == "s")
                    A.s = parseList(v);
                else if (k == "corner")
                    A.corner = strtod(v.c_str(), nullptr);
                else if (k == "family")
                    A.family = v;
            }
            if (A.n >= 2 && (int)A.d.size() == A.n && (int)A.s.size() == A.n - 1)
                checkSystem(A, 4);
        }
    }
    else {
        bool thorough = argc > 2 && std::string(argv[2]) == "thorough";
        g_part        = argc > 3 ? atoi(argv[3]) : 0;
        g_nparts      = argc > 4 ? atoi(argv[4]) : 1;
        enumerate(thorough);
        checkDiagonal(thorough);
    }
    printf("STAT systems %ld\nSTAT spd %ld\nSTAT solves %ld\nSTAT histories %ld\nSTAT distinct %zu\n", g_systems,
           g_spd, g_solves, g_hist, g_distinct.size());
    printf("STAT assignments %ld\n", g_assign);
    printf("STAT worst_ratio_plain %.6g\nSTAT worst_ratio_cyclic %.6g\nSTAT worst_ulps_diagonal %.6g\nSTAT violations %ld\n",
           g_worst_nc, g_worst_cy, g_worst_diag, g_viol);
    return 0;
}
