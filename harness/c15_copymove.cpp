// C15: explicit-state breadth-first search over operation histories on live linear-algebra objects,
// in lock step with a value-semantics model.  A state is the history that reaches it (replayed on fresh
// objects); states are merged only when the canonical string of ALL visible + hidden fields (read through
// -fno-access-control) and of the model are equal byte for byte.
//
// usage: c15_copymove enumerate <quick|thorough> <part> <nparts>     part selects the class
//        c15_copymove replay   (stdin: "kind=<name> ops=<o1,o2,...>")
#include <omp.h>
#include <unistd.h>
#include <cinttypes>
#include <cmath>
#include <cstdio>
#include <cstring>
#include <deque>
#include <functional>
#include <optional>
#include <set>
#include <sstream>
#include <string>
#include <unordered_set>
#include <vector>

#include "LinearAlgebra/vector.h"
#include "LinearAlgebra/coo_matrix.h"
#include "LinearAlgebra/csr_matrix.h"
#include "LinearAlgebra/sparseLUSolver.h"
#include "LinearAlgebra/symmetricTridiagonalSolver.h"
#include "LinearAlgebra/diagonalSolver.h"

typedef long double LD;
static const int NSLOT = 3; // slots 0,1: general purpose; slot 2: target of copy-/move-construction

static std::string fmt(double x)
{
    char b[40];
    snprintf(b, sizeof b, "%.17g", x);
    return b;
}

// dense solve in long double with partial pivoting (reference)
static bool denseSolve(std::vector<LD> M, std::vector<LD> b, int n, std::vector<LD>& x)
{
    for (int c = 0; c < n; c++) {
        int p = c;
        for (int r = c + 1; r < n; r++)
            if (fabsl(M[r * n + c]) > fabsl(M[p * n + c]))
                p = r;
        if (M[p * n + c] == 0)
            return false;
        if (p != c) {
            for (int k = 0; k < n; k++)
                std::swap(M[p * n + k], M[c * n + k]);
            std::swap(b[p], b[c]);
        }
        for (int r = c + 1; r < n; r++) {
            LD f = M[r * n + c] / M[c * n + c];
            for (int k = c; k < n; k++)
                M[r * n + k] -= f * M[c * n + k];
            b[r] -= f * b[c];
        }
    }
    x.assign(n, 0);
    for (int r = n - 1; r >= 0; r--) {
        LD s = b[r];
        for (int k = r + 1; k < n; k++)
            s -= M[r * n + k] * x[k];
        x[r] = s / M[r * n + r];
    }
    return true;
}
static std::string cmpSolve(const std::vector<LD>& M, int n, const std::vector<double>& b,
                            const std::vector<double>& got)
{
    std::vector<LD> bl(b.begin(), b.end()), x;
    if (!denseSolve(M, bl, n, x))
        return "reference singular";
    LD nx = 0;
    for (int i = 0; i < n; i++)
        nx = std::max(nx, fabsl(x[i]));
    for (int i = 0; i < n; i++) {
        if (!(fabsl((LD)got[i] - x[i]) <= 1e-11L * (nx + 1e-300L)))
            return "solve result differs from the dense solution of the model matrix: component " +
                   std::to_string(i) + " got " + fmt(got[i]) + " expected " + fmt((double)x[i]);
    }
    return "";
}
static std::vector<double> fixedRhs(int n)
{
    std::vector<double> b(n);
    for (int i = 0; i < n; i++)
        b[i] = 1.0 + 0.75 * i - (i % 2) * 2.5;
    return b;
}

// ------------------------------------------------------------------------------------------
// Kinds.  Each kind provides:
//   Obj, Model, nCtor, nSet, hasSolve
//   make(v) -> pair(Obj, Model);  set(Obj&, Model&, p);  solve(Obj&, Model&) -> error string
//   canon(Obj) / canonModel(Model);  observe(Obj&, Model&) -> error string (may mutate Obj)
//   emptyModel();  isEmpty(Model)
// ------------------------------------------------------------------------------------------
struct KVector {
    typedef Vector<double> Obj;
    typedef std::vector<double> Model;
    static const char* name()
    {
        return "Vector";
    }
    static const int nCtor = 3, nSet = 2, nExtra = 0;
    static std::pair<Obj, Model> make(int v)
    {
        if (v == 2) { // initializer-list / std::vector constructor path
            std::vector<double> init = {1.5, -2.5, 3.5, 4.5};
            return {Obj(init), init};
        }
        int n = v == 0 ? 3 : 5;
        return {Obj(n), Model(n, 0.0)};
    }
    static bool set(Obj& o, Model& m, int p)
    {
        if (m.empty())
            return false;
        for (int i = 0; i < (int)m.size(); i++) {
            m[i] = 10.0 * (p + 1) + i;
            o[i] = m[i];
        }
        return true;
    }
    static bool canSolve(const Model&)
    {
        return false;
    }
    static std::string solve(Obj&, Model&)
    {
        return "";
    }
    static bool extra(Obj&, Model&, int)
    {
        return false;
    }
    static std::string canon(const Obj& o)
    {
        std::string s = "V" + std::to_string(o.size_) + (o.values_ ? "p" : "n") + "[";
        for (int i = 0; i < o.size_; i++)
            s += fmt(o.values_[i]) + ",";
        return s + "]";
    }
    static std::string canonModel(const Model& m)
    {
        std::string s = "M[";
        for (double x : m)
            s += fmt(x) + ",";
        return s + "]";
    }
    static Model emptyModel()
    {
        return Model();
    }
    static std::string observe(Obj& o, const Model& m)
    {
        if (o.size() != (int)m.size())
            return "size() " + std::to_string(o.size()) + " != model " + std::to_string(m.size());
        if ((o.end() - o.begin()) != (long)m.size())
            return "begin/end range differs from model size";
        for (int i = 0; i < (int)m.size(); i++)
            if (o[i] != m[i])
                return "element " + std::to_string(i) + " is " + fmt(o[i]) + ", model " + fmt(m[i]);
        return "";
    }
};

struct TriModel {
    int n = 0;
    bool cyclic = true;
    std::vector<double> d, s;
    double corner = 0;
    bool set = false;
};
struct KTridiag {
    typedef SymmetricTridiagonalSolver<double> Obj;
    typedef TriModel Model;
    static const char* name()
    {
        return "SymmetricTridiagonalSolver";
    }
    static const int nCtor = 3, nSet = 2, nExtra = 0;
    static std::pair<Obj, Model> make(int v)
    {
        int n    = v == 1 ? 4 : 3;
        bool cyc = v != 0;
        Obj o(n);
        o.is_cyclic(cyc);
        Model m;
        m.n      = n;
        m.cyclic = cyc;
        m.d.assign(n, 0);
        m.s.assign(n - 1, 0);
        return {std::move(o), m};
    }
    static bool set(Obj& o, Model& m, int p)
    {
        if (m.n == 0)
            return false;
        // entries are (re)written through the public accessors; this is only meaningful on an object that
        // has not factorised yet, exactly as the smoothers use it
        if (o.factorized_)
            return false;
        for (int i = 0; i < m.n; i++) {
            m.d[i]              = 4.0 + p + 0.25 * i;
            o.main_diagonal(i) = m.d[i];
        }
        for (int i = 0; i + 1 < m.n; i++) {
            m.s[i]             = -1.0 + 0.5 * p + 0.125 * i;
            o.sub_diagonal(i) = m.s[i];
        }
        if (m.cyclic) {
            m.corner                  = 0.5 + 0.25 * p;
            o.cyclic_corner_element() = m.corner;
        }
        m.set = true;
        return true;
    }
    static std::vector<LD> dense(const Model& m)
    {
        int n = m.n;
        std::vector<LD> M(n * n, 0);
        for (int i = 0; i < n; i++)
            M[i * n + i] = m.d[i];
        for (int i = 0; i + 1 < n; i++) {
            M[i * n + i + 1] += m.s[i];
            M[(i + 1) * n + i] += m.s[i];
        }
        if (m.cyclic) {
            M[0 * n + n - 1] += m.corner;
            M[(n - 1) * n + 0] += m.corner;
        }
        return M;
    }
    static bool canSolve(const Model& m)
    {
        return m.n >= 2 && m.set;
    }
    static std::string solve(Obj& o, Model& m)
    {
        std::vector<double> b = fixedRhs(m.n), x = b, t1(m.n), t2(m.n);
        o.solveInPlace(x.data(), t1.data(), t2.data());
        return cmpSolve(dense(m), m.n, b, x);
    }
    static bool extra(Obj&, Model&, int)
    {
        return false;
    }
    static std::string canon(const Obj& o)
    {
        std::string s = "T" + std::to_string(o.matrix_dimension_) + (o.is_cyclic_ ? "c" : "p") +
                        (o.factorized_ ? "F" : "u") + "g" + fmt(o.gamma_) + "k" + fmt(o.cyclic_corner_element_) + "[";
        for (int i = 0; i < o.matrix_dimension_; i++)
            s += fmt(o.main_diagonal_values_[i]) + ",";
        s += "|";
        for (int i = 0; i + 1 < o.matrix_dimension_; i++)
            s += fmt(o.sub_diagonal_values_[i]) + ",";
        return s + "]";
    }
    static std::string canonModel(const Model& m)
    {
        std::string s = "M" + std::to_string(m.n) + (m.cyclic ? "c" : "p") + (m.set ? "s" : "u") + fmt(m.corner) + "[";
        for (double x : m.d)
            s += fmt(x) + ",";
        for (double x : m.s)
            s += fmt(x) + ",";
        return s + "]";
    }
    static Model emptyModel()
    {
        return Model();
    }
    static std::string observe(Obj& o, Model& m)
    {
        if (o.rows() != m.n || o.columns() != m.n)
            return "rows() " + std::to_string(o.rows()) + " != model " + std::to_string(m.n);
        if (m.n == 0)
            return "";
        if (o.is_cyclic() != m.cyclic)
            return "is_cyclic() differs from model";
        if (canSolve(m))
            return solve(o, m);
        for (int i = 0; i < m.n; i++)
            if (o.main_diagonal(i) != m.d[i])
                return "unset object: main_diagonal differs from model";
        return "";
    }
};

struct DiagModel {
    int n = 0;
    std::vector<double> d;
    bool set = false;
};
struct KDiag {
    typedef DiagonalSolver<double> Obj;
    typedef DiagModel Model;
    static const char* name()
    {
        return "DiagonalSolver";
    }
    static const int nCtor = 2, nSet = 2, nExtra = 0;
    static std::pair<Obj, Model> make(int v)
    {
        int n = v == 0 ? 3 : 4;
        Model m;
        m.n = n;
        m.d.assign(n, 0);
        return {Obj(n), m};
    }
    static bool set(Obj& o, Model& m, int p)
    {
        if (m.n == 0)
            return false;
        for (int i = 0; i < m.n; i++) {
            m.d[i]        = 2.0 + p + 0.5 * i;
            o.diagonal(i) = m.d[i];
        }
        m.set = true;
        return true;
    }
    static bool canSolve(const Model& m)
    {
        return m.n >= 1 && m.set;
    }
    static std::string solve(Obj& o, Model& m)
    {
        std::vector<double> b = fixedRhs(m.n), x = b;
        o.solveInPlace(x.data());
        for (int i = 0; i < m.n; i++)
            if (x[i] != b[i] / m.d[i])
                return "DiagonalSolver solve differs from b/d";
        return "";
    }
    static bool extra(Obj&, Model&, int)
    {
        return false;
    }
    static std::string canon(const Obj& o)
    {
        std::string s = "D" + std::to_string(o.matrix_dimension_) + "[";
        for (int i = 0; i < o.matrix_dimension_; i++)
            s += fmt(o.diagonal_values_[i]) + ",";
        return s + "]";
    }
    static std::string canonModel(const Model& m)
    {
        std::string s = "M" + std::to_string(m.n) + (m.set ? "s" : "u") + "[";
        for (double x : m.d)
            s += fmt(x) + ",";
        return s + "]";
    }
    static Model emptyModel()
    {
        return Model();
    }
    static std::string observe(Obj& o, Model& m)
    {
        if (o.rows() != m.n)
            return "rows() differs from model";
        for (int i = 0; i < m.n; i++)
            if (o.diagonal(i) != m.d[i])
                return "diagonal(i) differs from model";
        if (canSolve(m))
            return solve(o, m);
        return "";
    }
};

struct SpModel {
    int rows = 0, cols = 0;
    std::vector<std::tuple<int, int, double>> ent; // in storage order
    bool sym = false;
};
// three shapes: A 3x3 nnz 7, B 4x4 nnz 7 (same nnz, different row count), C 3x3 nnz 5
static SpModel shape(int v)
{
    SpModel m;
    if (v == 0) {
        m.rows = m.cols = 3;
        m.ent           = {{0, 0, 4}, {0, 1, -1}, {1, 0, -1}, {1, 1, 4}, {1, 2, -1}, {2, 1, -1}, {2, 2, 4}};
    }
    else if (v == 1) {
        m.rows = m.cols = 4;
        m.ent           = {{0, 0, 5}, {0, 3, 1}, {1, 1, 5}, {2, 2, 5}, {2, 0, -2}, {3, 3, 5}, {3, 1, 0.5}};
    }
    else if (v == 2) {
        m.rows = m.cols = 3;
        m.ent           = {{0, 0, 3}, {1, 1, 3}, {1, 0, 1}, {2, 2, 3}, {2, 0, -1}};
    }
    else if (v == 3) { // non-square, as many columns and entries as shape 1 but fewer rows
        m.rows = 2;
        m.cols = 4;
        m.ent  = {{0, 0, 2}, {0, 1, -1}, {0, 3, 1}, {1, 0, 0.5}, {1, 1, 2}, {1, 2, -1}, {1, 3, 3}};
    }
    else { // non-square, as many columns and entries as shape 1 but more rows
        m.rows = 5;
        m.cols = 4;
        m.ent  = {{0, 0, 2}, {1, 1, 2}, {2, 2, 2}, {2, 0, -1}, {3, 3, 2}, {4, 0, 1}, {4, 3, -0.5}};
    }
    return m;
}
static void setPattern(SpModel& m, int p)
{
    for (size_t k = 0; k < m.ent.size(); k++) {
        int r = std::get<0>(m.ent[k]), c = std::get<1>(m.ent[k]);
        std::get<2>(m.ent[k]) = (r == c) ? 6.0 + p + 0.5 * r : (0.25 * (p + 1) * ((k % 2) ? -1 : 1));
    }
}
static std::string canonSp(const SpModel& m)
{
    std::string s = "M" + std::to_string(m.rows) + "x" + std::to_string(m.cols) + (m.sym ? "S" : "n") + "[";
    for (auto& e : m.ent)
        s += std::to_string(std::get<0>(e)) + ":" + std::to_string(std::get<1>(e)) + ":" + fmt(std::get<2>(e)) + ",";
    return s + "]";
}

struct KCOO {
    typedef SparseMatrixCOO<double> Obj;
    typedef SpModel Model;
    static const char* name()
    {
        return "SparseMatrixCOO";
    }
    static const int nCtor = 6, nSet = 2, nExtra = 1;
    static std::pair<Obj, Model> make(int v)
    {
        SpModel m = shape(v >= 4 ? v - 1 : v % 3); // v = 4, 5: the non-square shapes
        if (v == 3) { // (rows, cols, nnz) constructor followed by element-wise fill
            Obj o(m.rows, m.cols, (int)m.ent.size());
            for (size_t k = 0; k < m.ent.size(); k++) {
                o.row_index(k) = std::get<0>(m.ent[k]);
                o.col_index(k) = std::get<1>(m.ent[k]);
                o.value(k)     = std::get<2>(m.ent[k]);
            }
            return {std::move(o), m};
        }
        std::vector<std::tuple<int, int, double>> e = m.ent;
        return {Obj(m.rows, m.cols, e), m};
    }
    static bool set(Obj& o, Model& m, int p)
    {
        if (m.ent.empty())
            return false;
        setPattern(m, p);
        for (size_t k = 0; k < m.ent.size(); k++)
            o.value(k) = std::get<2>(m.ent[k]);
        return true;
    }
    static bool canSolve(const Model&)
    {
        return false;
    }
    static std::string solve(Obj&, Model&)
    {
        return "";
    }
    static bool extra(Obj& o, Model& m, int)
    {
        m.sym = !m.sym;
        o.is_symmetric(m.sym);
        return true;
    }
    static std::string canon(const Obj& o)
    {
        std::string s = "C" + std::to_string(o.rows_) + "x" + std::to_string(o.columns_) + "n" +
                        std::to_string(o.nnz_) + (o.is_symmetric_ ? "S" : "n") + "[";
        for (int k = 0; k < o.nnz_; k++)
            s += std::to_string(o.row_indices_[k]) + ":" + std::to_string(o.column_indices_[k]) + ":" +
                 fmt(o.values_[k]) + ",";
        return s + "]";
    }
    static std::string canonModel(const Model& m)
    {
        return canonSp(m);
    }
    static Model emptyModel()
    {
        return Model();
    }
    static std::string observe(Obj& o, Model& m)
    {
        if (o.rows() != m.rows || o.columns() != m.cols)
            return "rows/columns differ from model";
        if (o.non_zero_size() != (int)m.ent.size())
            return "non_zero_size differs from model";
        if (o.is_symmetric() != m.sym)
            return "is_symmetric() differs from model";
        for (size_t k = 0; k < m.ent.size(); k++)
            if (o.row_index(k) != std::get<0>(m.ent[k]) || o.col_index(k) != std::get<1>(m.ent[k]) ||
                o.value(k) != std::get<2>(m.ent[k]))
                return "entry " + std::to_string(k) + " differs from model";
        return "";
    }
};

static std::vector<std::tuple<int, int, double>> rowSorted(const SpModel& m)
{
    std::vector<std::tuple<int, int, double>> e = m.ent;
    std::stable_sort(e.begin(), e.end(), [](auto& a, auto& b) {
        return std::get<0>(a) < std::get<0>(b);
    });
    return e;
}
struct KCSR {
    typedef SparseMatrixCSR<double> Obj;
    typedef SpModel Model;
    static const char* name()
    {
        return "SparseMatrixCSR";
    }
    static const int nCtor = 7, nSet = 2, nExtra = 0;
    static std::pair<Obj, Model> make(int v)
    {
        SpModel m = shape(v >= 5 ? v - 2 : v % 3); // v = 5, 6: the non-square shapes (5: triplets, 6: nz_per_row constructor)
        m.ent     = rowSorted(m);
        if (v == 3 || v == 6) { // nz_per_row constructor + setters
            std::vector<int> cnt(m.rows, 0);
            for (auto& e : m.ent)
                cnt[std::get<0>(e)]++;
            Obj o(m.rows, m.cols, [&](int r) {
                return cnt[r];
            });
            std::vector<int> pos(m.rows, 0);
            for (auto& e : m.ent) {
                int r                      = std::get<0>(e);
                o.row_nz_index(r, pos[r]) = std::get<1>(e);
                o.row_nz_entry(r, pos[r]) = std::get<2>(e);
                pos[r]++;
            }
            return {std::move(o), m};
        }
        if (v == 4) { // raw array constructor
            std::vector<double> val;
            std::vector<int> col, start(m.rows + 1, 0);
            for (auto& e : m.ent) {
                val.push_back(std::get<2>(e));
                col.push_back(std::get<1>(e));
                start[std::get<0>(e) + 1]++;
            }
            for (int r = 0; r < m.rows; r++)
                start[r + 1] += start[r];
            return {Obj(m.rows, m.cols, val, col, start), m};
        }
        return {Obj(m.rows, m.cols, m.ent), m};
    }
    static bool set(Obj& o, Model& m, int p)
    {
        if (m.ent.empty())
            return false;
        setPattern(m, p);
        std::vector<int> pos(m.rows, 0);
        for (auto& e : m.ent) {
            int r                      = std::get<0>(e);
            o.row_nz_entry(r, pos[r]) = std::get<2>(e);
            pos[r]++;
        }
        return true;
    }
    static bool canSolve(const Model&)
    {
        return false;
    }
    static std::string solve(Obj&, Model&)
    {
        return "";
    }
    static bool extra(Obj&, Model&, int)
    {
        return false;
    }
    static std::string canon(const Obj& o)
    {
        std::string s = "R" + std::to_string(o.rows_) + "x" + std::to_string(o.columns_) + "n" +
                        std::to_string(o.nnz_) + "[";
        for (int k = 0; k < o.nnz_; k++)
            s += std::to_string(o.column_indices_[k]) + ":" + fmt(o.values_[k]) + ",";
        s += "|";
        if (o.row_start_indices_)
            for (int r = 0; r <= o.rows_; r++)
                s += std::to_string(o.row_start_indices_[r]) + ",";
        return s + "]";
    }
    static std::string canonModel(const Model& m)
    {
        return canonSp(m);
    }
    static Model emptyModel()
    {
        return Model();
    }
    static std::string observe(Obj& o, Model& m)
    {
        if (o.rows() != m.rows || o.columns() != m.cols)
            return "rows/columns differ from model";
        if (o.non_zero_size() != (int)m.ent.size())
            return "non_zero_size differs from model";
        std::vector<int> pos(m.rows, 0), cnt(m.rows, 0);
        for (auto& e : m.ent)
            cnt[std::get<0>(e)]++;
        for (int r = 0; r < m.rows; r++)
            if (o.row_nz_size(r) != cnt[r])
                return "row_nz_size differs from model";
        for (auto& e : m.ent) {
            int r = std::get<0>(e);
            if (o.row_nz_index(r, pos[r]) != std::get<1>(e) || o.row_nz_entry(r, pos[r]) != std::get<2>(e))
                return "row entry differs from model";
            pos[r]++;
        }
        return "";
    }
};

struct KLU {
    typedef SparseLUSolver<double> Obj;
    typedef SpModel Model;
    static const char* name()
    {
        return "SparseLUSolver";
    }
    static const int nCtor = 3, nSet = 0, nExtra = 0;
    static std::pair<Obj, Model> make(int v)
    {
        SpModel m = shape(v);
        m.ent     = rowSorted(m);
        SparseMatrixCSR<double> A(m.rows, m.cols, m.ent);
        return {Obj(A), m};
    }
    static bool set(Obj&, Model&, int)
    {
        return false;
    }
    static bool canSolve(const Model& m)
    {
        return m.rows > 0;
    }
    static std::string solve(Obj& o, Model& m)
    {
        int n = m.rows;
        std::vector<LD> M(n * n, 0);
        for (auto& e : m.ent)
            M[std::get<0>(e) * n + std::get<1>(e)] += std::get<2>(e);
        std::vector<double> b = fixedRhs(n);
        Vector<double> x(n);
        for (int i = 0; i < n; i++)
            x[i] = b[i];
        o.solveInPlace(x);
        std::vector<double> got(x.begin(), x.end());
        return cmpSolve(M, n, b, got);
    }
    static bool extra(Obj&, Model&, int)
    {
        return false;
    }
    static std::string canon(const Obj& o)
    {
        // unordered_map iteration order decides the storage order inside a row: canonicalise per row
        std::string s = std::string("L") + (o.factorized_ ? "F" : "u") + "[";
        auto rows = [&](const std::vector<double>& v, const std::vector<int>& c, const std::vector<int>& p) {
            std::string t;
            for (size_t r = 0; r + 1 < p.size(); r++) {
                std::vector<std::pair<int, double>> e;
                for (int k = p[r]; k < p[r + 1]; k++)
                    e.push_back({c[k], v[k]});
                std::sort(e.begin(), e.end());
                for (auto& x : e)
                    t += std::to_string(x.first) + ":" + fmt(x.second) + ",";
                t += ";";
            }
            return t;
        };
        s += rows(o.L_values, o.L_col_idx, o.L_row_ptr) + "|" + rows(o.U_values, o.U_col_idx, o.U_row_ptr);
        return s + "]";
    }
    static std::string canonModel(const Model& m)
    {
        return canonSp(m);
    }
    static Model emptyModel()
    {
        return Model();
    }
    static std::string observe(Obj& o, Model& m)
    {
        if (m.rows == 0) {
            if (o.factorized_)
                return "empty/moved-from solver still claims to be factorised";
            return "";
        }
        return solve(o, m);
    }
};

// ------------------------------------------------------------------------------------------
// explorer
// ------------------------------------------------------------------------------------------
struct OpDesc {
    int code;
    std::string text;
};

template <class K>
struct Explorer {
    typedef typename K::Obj Obj;
    typedef typename K::Model Model;
    struct World {
        std::optional<Obj> o[NSLOT];
        Model m[NSLOT];
        bool live[NSLOT] = {false, false, false};
    };
    std::vector<OpDesc> ops;
    long states = 0, transitions = 0, observations = 0, maxDepthDone = 0, viol = 0, replays = 0;
    std::set<std::string> distinctObs;
    std::vector<std::string> samples;

    // op encoding: kind*100 + a*10 + b
    enum { CTOR = 1, SET = 2, SOLVE = 3, CC = 4, MC = 5, CA = 6, MA = 7, EXTRA = 8, DTOR = 9 };

    Explorer()
    {
        for (int i = 0; i < 2; i++)
            for (int v = 0; v < K::nCtor; v++)
                ops.push_back({CTOR * 100 + i * 10 + v, "construct(slot" + std::to_string(i) + ",variant" + std::to_string(v) + ")"});
        ops.push_back({CTOR * 100 + 0 * 10 + 9, "default-construct(slot0)"});
        for (int i = 0; i < 2; i++)
            for (int p = 0; p < K::nSet; p++)
                ops.push_back({SET * 100 + i * 10 + p, "set-entries(slot" + std::to_string(i) + ",pattern" + std::to_string(p) + ")"});
        for (int i = 0; i < NSLOT; i++)
            ops.push_back({SOLVE * 100 + i * 10, "solve/read(slot" + std::to_string(i) + ")"});
        for (int i = 0; i < 2; i++) {
            ops.push_back({CC * 100 + 2 * 10 + i, "slot2 = copy-construct(slot" + std::to_string(i) + ")"});
            ops.push_back({MC * 100 + 2 * 10 + i, "slot2 = move-construct(slot" + std::to_string(i) + ")"});
        }
        for (int i = 0; i < NSLOT; i++)
            for (int j = 0; j < NSLOT; j++) {
                ops.push_back({CA * 100 + i * 10 + j, "slot" + std::to_string(i) + " = slot" + std::to_string(j) + " (copy-assign)"});
                if (i != j)
                    ops.push_back({MA * 100 + i * 10 + j, "slot" + std::to_string(i) + " = move(slot" + std::to_string(j) + ")"});
            }
        for (int i = 0; i < 2 && K::nExtra; i++)
            ops.push_back({EXTRA * 100 + i * 10, "toggle-flag(slot" + std::to_string(i) + ")"});
    }
    std::string opText(int code) const
    {
        for (auto& o : ops)
            if (o.code == code)
                return o.text;
        return "?";
    }

    // returns: 0 not applicable, 1 applied, sets err on a detected violation
    int apply(World& w, int code, std::string& err)
    {
        int kind = code / 100, a = (code / 10) % 10, b = code % 10;
        switch (kind) {
        case CTOR: {
            if (b == 9) {
                w.o[a].reset();
                w.o[a].emplace();
                w.m[a]    = K::emptyModel();
                w.live[a] = true;
                return 1;
            }
            auto pr = K::make(b);
            w.o[a].reset();
            w.o[a].emplace(std::move(pr.first));
            w.m[a]    = pr.second;
            w.live[a] = true;
            return 1;
        }
        case SET:
            if (!w.live[a])
                return 0;
            return K::set(*w.o[a], w.m[a], b) ? 1 : 0;
        case SOLVE:
            if (!w.live[a] || !K::canSolve(w.m[a]))
                return 0;
            err = K::solve(*w.o[a], w.m[a]);
            return 1;
        case CC:
            if (!w.live[b])
                return 0;
            w.o[a].reset();
            w.o[a].emplace(*w.o[b]);
            w.m[a]    = w.m[b];
            w.live[a] = true;
            return 1;
        case MC:
            if (!w.live[b])
                return 0;
            w.o[a].reset();
            w.o[a].emplace(std::move(*w.o[b]));
            w.m[a]    = w.m[b];
            w.m[b]    = K::emptyModel();
            w.live[a] = true;
            return 1;
        case CA:
            if (!w.live[a] || !w.live[b])
                return 0;
            *w.o[a] = *w.o[b];
            w.m[a]  = w.m[b];
            return 1;
        case MA:
            if (!w.live[a] || !w.live[b])
                return 0;
            *w.o[a] = std::move(*w.o[b]);
            w.m[a]  = w.m[b];
            w.m[b]  = K::emptyModel();
            return 1;
        case EXTRA:
            if (!w.live[a])
                return 0;
            return K::extra(*w.o[a], w.m[a], b) ? 1 : 0;
        }
        return 0;
    }
    std::string canon(const World& w)
    {
        std::string s;
        for (int i = 0; i < NSLOT; i++) {
            if (!w.live[i]) {
                s += "-;";
                continue;
            }
            s += K::canon(*w.o[i]) + "/" + K::canonModel(w.m[i]) + ";";
        }
        return s;
    }
    // replays a history; returns "" or an error; fills canon string BEFORE destructive observation
    std::string replayHistory(const std::vector<int>& hist, std::string* canonOut, bool observe)
    {
        replays++;
        {
            // the history about to be replayed, so that a sanitizer abort inside it can be attributed (the checker shows the last one)
            std::string h = std::string("HISTORY ") + K::name() + ":";
            for (int c : hist)
                h += " " + opText(c) + " ;";
            h += "\n";
            (void)!write(2, h.data(), h.size());
        }
        World w;
        std::string err;
        try {
            for (size_t k = 0; k < hist.size(); k++) {
                int r = apply(w, hist[k], err);
                if (r == 0)
                    return "NA";
                if (!err.empty())
                    return "step " + std::to_string(k) + " (" + opText(hist[k]) + "): " + err;
            }
            if (canonOut)
                *canonOut = canon(w);
            if (observe) {
                for (int i = 0; i < NSLOT; i++) {
                    if (!w.live[i])
                        continue;
                    observations++;
                    std::string e = K::observe(*w.o[i], w.m[i]);
                    if (!e.empty())
                        return "after the history, slot" + std::to_string(i) + ": " + e;
                }
            }
        }
        catch (const std::exception& ex) {
            return std::string("exception: ") + ex.what();
        }
        return "";
    }
    std::string histStr(const std::vector<int>& h)
    {
        std::string s;
        for (size_t i = 0; i < h.size(); i++)
            s += (i ? "," : "") + std::to_string(h[i]);
        return s;
    }
    std::string histText(const std::vector<int>& h)
    {
        std::string s;
        for (size_t i = 0; i < h.size(); i++)
            s += (i ? " ; " : "") + opText(h[i]);
        return s;
    }
    void report(const std::vector<int>& h, const std::string& err)
    {
        viol++;
        if (viol > 30)
            return;
        // key: class + the kinds of the last two operations + a digest of the message class
        std::string last = h.empty() ? "" : opText(h.back());
        std::string cls  = err;
        size_t p         = cls.find(':');
        std::string what = err;
        // stable class of the failure (strip numbers)
        std::string kcls;
        for (char c : err.substr(0, 200))
            if (!isdigit((unsigned char)c) && c != '-' && c != '.' && c != '+')
                kcls += c;
        size_t q = kcls.find("got");
        if (q != std::string::npos)
            kcls = kcls.substr(0, q);
        std::string kinds;
        for (int c : h) {
            static const char* nm[] = {"?", "ctor", "set", "solve", "cc", "mc", "ca", "ma", "x", "d"};
            kinds += std::string(kinds.empty() ? "" : ">") + nm[c / 100];
        }
        printf("VIOL %s:%s | %s: %s  [history: %s] | kind=%s ops=%s\n", K::name(), kinds.c_str(), K::name(),
               what.c_str(), histText(h).c_str(), K::name(), histStr(h).c_str());
        (void)p;
        (void)last;
    }

    void bfs(int maxDepth)
    {
        std::unordered_set<std::string> seen;
        std::deque<std::vector<int>> frontier;
        frontier.push_back({});
        seen.insert("<init>");
        states = 1;
        std::set<std::string> reportedKinds;
        while (!frontier.empty()) {
            std::vector<int> h = frontier.front();
            frontier.pop_front();
            maxDepthDone = std::max<long>(maxDepthDone, (long)h.size());
            if ((int)h.size() >= maxDepth)
                continue;
            for (auto& op : ops) {
                std::vector<int> h2 = h;
                h2.push_back(op.code);
                std::string c1, c2;
                std::string e = replayHistory(h2, &c1, true);
                if (e == "NA")
                    continue;
                transitions++;
                if (!e.empty()) {
                    report(h2, e);
                    continue; // do not expand beyond a violating state
                }
                // replay determinism: the canonical state must be reproducible
                if (transitions % 97 == 0) {
                    std::string e2 = replayHistory(h2, &c2, false);
                    if (c1 != c2) {
                        printf("VIOL %s:nondeterministic-replay | canonical state differs between two replays of the same history (uninitialised field?) | kind=%s ops=%s\n",
                               K::name(), K::name(), histStr(h2).c_str());
                        viol++;
                        continue;
                    }
                }
                distinctObs.insert(c1.substr(0, 400));
                if (seen.insert(c1).second) {
                    states++;
                    frontier.push_back(h2);
                    if (samples.size() < 3 && h2.size() >= 3 && states % 37 == 0)
                        samples.push_back(std::string(K::name()) + ": " + histText(h2));
                }
            }
        }
    }
    void run(int depth)
    {
        bfs(depth);
        for (auto& s : samples)
            printf("SAMPLE %s\n", s.c_str());
        printf("STAT states %ld\nSTAT transitions %ld\nSTAT observations %ld\nSTAT replays %ld\nSTAT violations %ld\n",
               states, transitions, observations, replays, viol);
        printf("STAT maxdepth_%s %ld\nSTAT states_%s %ld\nSTAT transitions_%s %ld\n", K::name(), maxDepthDone,
               K::name(), states, K::name(), transitions);
    }
    int replayOne(const std::vector<int>& h)
    {
        std::string c;
        std::string e = replayHistory(h, &c, true);
        if (e == "NA") {
            printf("replay: history not applicable\n");
            return 0;
        }
        if (!e.empty()) {
            report(h, e);
            return 1;
        }
        return 0;
    }
};

template <class K>
static void go(const std::string& mode, int depth, const std::vector<int>& hist)
{
    Explorer<K> ex;
    if (mode == "replay")
        ex.replayOne(hist);
    else
        ex.run(depth);
}

static void dispatch(const std::string& kind, const std::string& mode, int depth, const std::vector<int>& hist)
{
    if (kind == "Vector")
        go<KVector>(mode, depth, hist);
    else if (kind == "SymmetricTridiagonalSolver")
        go<KTridiag>(mode, depth, hist);
    else if (kind == "DiagonalSolver")
        go<KDiag>(mode, depth, hist);
    else if (kind == "SparseMatrixCOO")
        go<KCOO>(mode, depth, hist);
    else if (kind == "SparseMatrixCSR")
        go<KCSR>(mode, depth, hist);
    else if (kind == "SparseLUSolver")
        go<KLU>(mode, depth, hist);
}

// Vectors above the size at which the copy operations start a thread team: every special member, into fresh / equally sized /
// differently sized targets, with team sizes that do and do not divide the length.  Not part of the breadth-first search (a state
// would hold 10^4 values); an exhaustive product of its own.
static void bigVectorBlock(const char* only)
{
    long n_ops = 0;
    for (int n : {10001, 12345, 16384}) {
        for (int T : {1, 2, 3, 5, 8}) {
            for (int target = 0; target < 3; target++) {   // 0: default-constructed, 1: same size, 2: other size
                for (int op = 0; op < 4; op++) {           // 0 copy-construct, 1 copy-assign, 2 move-construct, 3 move-assign
                    if ((op == 0 || op == 2) && target != 0)
                        continue;
                    char spec[96];
                    snprintf(spec, sizeof spec, "n=%d,T=%d,target=%d,op=%d", n, T, target, op);
                    if (only && std::string(only) != spec)
                        continue;
                    omp_set_num_threads(T);
                    Vector<double> src(n);
                    for (int i = 0; i < n; i++)
                        src[i] = 1.0 + 0.001 * i + (i % 7) * 0.5;
                    Vector<double> keep = Vector<double>(n);
                    for (int i = 0; i < n; i++)
                        keep[i] = src[i];
                    Vector<double> tgtSame(n), tgtOther(n + 777), tgtEmpty;
                    for (int i = 0; i < n; i++)
                        tgtSame[i] = -5.0;
                    for (int i = 0; i < n + 777; i++)
                        tgtOther[i] = -7.0;
                    Vector<double>* t = target == 0 ? &tgtEmpty : (target == 1 ? &tgtSame : &tgtOther);
                    const char* name = "";
                    std::string bad;
                    auto cmp = [&](const Vector<double>& got, const char* what) {
                        if ((int)got.size() != n) {
                            bad = std::string(what) + ": size " + std::to_string(got.size()) + " instead of " + std::to_string(n);
                            return;
                        }
                        for (int i = 0; i < n; i++)
                            if (got[i] != keep[i]) {
                                bad = std::string(what) + ": element " + std::to_string(i) + " is " + std::to_string(got[i]) + ", the source held " +
                                      std::to_string(keep[i]);
                                return;
                            }
                    };
                    if (op == 0) {
                        name = "copy-construct";
                        Vector<double> c(src);
                        cmp(c, "copy");
                        c[n - 1] += 1; // independence
                        if (bad.empty() && src[n - 1] != keep[n - 1])
                            bad = "copy and source share storage";
                    }
                    else if (op == 1) {
                        name = "copy-assign";
                        *t   = src;
                        cmp(*t, "copy");
                        (*t)[0] += 1;
                        if (bad.empty() && src[0] != keep[0])
                            bad = "copy and source share storage";
                    }
                    else if (op == 2) {
                        name = "move-construct";
                        Vector<double> c(std::move(src));
                        cmp(c, "moved-to object");
                    }
                    else {
                        name = "move-assign";
                        *t   = std::move(src);
                        cmp(*t, "moved-to object");
                    }
                    n_ops++;
                    if (!bad.empty())
                        printf("VIOL Vector:big:%s | Vector with %d elements, %d threads, %s into a %s target: %s | kind=VectorBig ops=%s\n", name, n, T,
                               name, target == 0 ? "default-constructed" : (target == 1 ? "equally sized" : "differently sized"), bad.c_str(), spec);
                }
            }
        }
    }
    omp_set_num_threads(1);
    printf("STAT big_vector_operations %ld\n", n_ops);
}

int main(int argc, char** argv)
{
    static const char* kinds[] = {"Vector",          "SymmetricTridiagonalSolver", "DiagonalSolver",
                                  "SparseMatrixCOO", "SparseMatrixCSR",            "SparseLUSolver"};
    std::string mode = argc > 1 ? argv[1] : "enumerate";
    if (mode == "replay") {
        char buf[1 << 14];
        while (fgets(buf, sizeof buf, stdin)) {
            std::istringstream is(buf);
            std::string tok, kind;
            std::vector<int> h;
            while (is >> tok) {
                if (tok.rfind("kind=", 0) == 0)
                    kind = tok.substr(5);
                if (tok.rfind("ops=", 0) == 0) {
                    std::istringstream os(tok.substr(4));
                    std::string t;
                    while (std::getline(os, t, ','))
                        if (!t.empty())
                            h.push_back(atoi(t.c_str()));
                }
            }
            if (kind == "VectorBig") {
                std::string line(buf), spec;
                auto q = line.find("ops=");
                if (q != std::string::npos) {
                    spec = line.substr(q + 4);
                    while (!spec.empty() && (spec.back() == '\n' || spec.back() == ' '))
                        spec.pop_back();
                }
                bigVectorBlock(spec.c_str());
                continue;
            }
            dispatch(kind, "replay", 0, h);
        }
        return 0;
    }
    bool thorough = argc > 2 && std::string(argv[2]) == "thorough";
    int part      = argc > 3 ? atoi(argv[3]) : 0;
    int nparts    = argc > 4 ? atoi(argv[4]) : 1;
    int depth     = thorough ? 9 : 7;
    for (int k = 0; k < 6; k++)
        if (k % nparts == part)
            dispatch(kinds[k], "enumerate", depth, {});
    if (0 % nparts == part)
        bigVectorBlock(nullptr);
    return 0;
}
