// C16: exhaustive enumeration of small sparse systems (all sparsity patterns for n<=4, structured families
// above) x storage orders x CSR constructors x row scalings on the real SparseLUSolver, dense reference.
//
// usage: c16_sparselu enumerate <quick|thorough> <part> <nparts>
//        c16_sparselu replay   (stdin: spec lines)
#include <algorithm>
#include <cmath>
#include <cstdio>
#include <cstring>
#include <set>
#include <sstream>
#include <string>
#include <vector>

#include "LinearAlgebra/csr_matrix.h"
#include "LinearAlgebra/sparseLUSolver.h"
#include "LinearAlgebra/vector.h"

typedef long double LD;

struct Entry {
    int col;
    double val;
};
struct Mat {
    int n;
    std::vector<std::vector<Entry>> rows; // storage order matters
    int ctor = 0; // 0 triplets, 1 nz_per_row + setters, 2 raw arrays
    std::string family;
    std::vector<double> scaleBound; // optional |L||U| row sums for non-dominant families (empty: use |A|)
};

static long g_mats = 0, g_solves = 0, g_viol = 0;
static double g_worst = 0;
static std::set<std::string> g_distinctPatterns;
static int g_samples = 0;
static long g_counter = 0;
static int g_part = 0, g_nparts = 1;
static double THR = 64.0;

static std::string fmt(double x)
{
    char b[40];
    snprintf(b, sizeof b, "%.17g", x);
    return b;
}
static std::string specOf(const Mat& A)
{
    std::ostringstream os;
    os << "n=" << A.n << " ctor=" << A.ctor << " family=" << A.family << " rows=";
    for (int i = 0; i < A.n; i++) {
        if (i)
            os << ";";
        for (size_t k = 0; k < A.rows[i].size(); k++)
            os << (k ? "," : "") << A.rows[i][k].col << ":" << fmt(A.rows[i][k].val);
    }
    if (!A.scaleBound.empty()) {
        os << " bound=";
        for (int i = 0; i < A.n; i++)
            os << (i ? "," : "") << fmt(A.scaleBound[i]);
    }
    return os.str();
}
static void emitViol(const std::string& key, const std::string& what, const Mat& A, const std::string& extra)
{
    g_viol++;
    if (g_viol <= 40)
        printf("VIOL %s | %s | %s %s\n", key.c_str(), what.c_str(), specOf(A).c_str(), extra.c_str());
}

static SparseMatrixCSR<double> build(const Mat& A)
{
    int n = A.n;
    if (A.ctor == 0) {
        std::vector<std::tuple<int, int, double>> t;
        for (int i = 0; i < n; i++)
            for (auto& e : A.rows[i])
                t.push_back({i, e.col, e.val});
        return SparseMatrixCSR<double>(n, n, t);
    }
    if (A.ctor == 1) {
        SparseMatrixCSR<double> M(n, n, [&](int r) {
            return (int)A.rows[r].size();
        });
        for (int i = 0; i < n; i++)
            for (size_t k = 0; k < A.rows[i].size(); k++) {
                M.row_nz_index(i, (int)k) = A.rows[i][k].col;
                M.row_nz_entry(i, (int)k) = A.rows[i][k].val;
            }
        return M;
    }
    std::vector<double> val;
    std::vector<int> col, start(1, 0);
    for (int i = 0; i < n; i++) {
        for (auto& e : A.rows[i]) {
            val.push_back(e.val);
            col.push_back(e.col);
        }
        start.push_back((int)val.size());
    }
    return SparseMatrixCSR<double>(n, n, val, col, start);
}

static void checkMatrix(const Mat& A)
{
    g_mats++;
    int n = A.n;
    std::vector<LD> D((size_t)n * n, 0);
    for (int i = 0; i < n; i++)
        for (auto& e : A.rows[i])
            D[(size_t)i * n + e.col] = e.val; // duplicates are never generated
    {
        std::string pat = std::to_string(n) + ":";
        for (int i = 0; i < n; i++) {
            std::vector<int> c;
            for (auto& e : A.rows[i])
                c.push_back(e.col);
            std::sort(c.begin(), c.end());
            for (int x : c)
                pat += std::to_string(x) + ",";
            pat += ";";
        }
        if (g_distinctPatterns.size() < 500000)
            g_distinctPatterns.insert(pat);
    }
    SparseMatrixCSR<double> M = build(A);
    SparseLUSolver<double> S(M);

    std::vector<std::vector<double>> rhs;
    for (int j = 0; j < n; j++) {
        std::vector<double> b(n, 0.0);
        b[j] = 1.0;
        rhs.push_back(b);
    }
    for (int v = 0; v < 3; v++) {
        std::vector<double> b(n);
        for (int i = 0; i < n; i++)
            b[i] = (v == 0 ? 1.0 : (v == 1 ? (i % 2 ? -3.5 : 2.25) : 1e3 * (i + 1))) + 0.125 * i * v;
        rhs.push_back(b);
    }
    // uniformly tiny and huge right-hand sides (the solve must not contain absolute thresholds)
    for (double scl : {1e-30, 1e30}) {
        std::vector<double> b = rhs[rhs.size() - 3];
        for (auto& v : b)
            v *= scl;
        rhs.push_back(b);
    }
    const LD eps = 1.1102230246251565e-16L;
    for (size_t k = 0; k < rhs.size(); k++) {
        Vector<double> x(n);
        for (int i = 0; i < n; i++)
            x[i] = rhs[k][i];
        S.solveInPlace(x);
        g_solves++;
        LD normA = 0, normx = 0, normb = 0;
        for (int i = 0; i < n; i++) {
            LD rs = 0;
            for (int j = 0; j < n; j++)
                rs += fabsl(D[(size_t)i * n + j]);
            if (!A.scaleBound.empty())
                rs = std::max(rs, (LD)A.scaleBound[i]);
            normA = std::max(normA, rs);
            normx = std::max(normx, (LD)fabs(x[i]));
            normb = std::max(normb, (LD)fabs(rhs[k][i]));
        }
        LD worst = 0;
        for (int i = 0; i < n; i++) {
            // row-wise scale: rows scaled over many orders of magnitude must each be satisfied
            LD r = -(LD)rhs[k][i], rowA = 0;
            for (int j = 0; j < n; j++) {
                r += D[(size_t)i * n + j] * (LD)x[j];
                rowA += fabsl(D[(size_t)i * n + j]);
            }
            if (!A.scaleBound.empty())
                rowA = std::max(rowA, (LD)A.scaleBound[i]);
            LD sc = rowA * normx + fabsl((LD)rhs[k][i]) + 1e-290L;
            if (!std::isfinite((double)r)) {
                worst = 1e300L;
                break;
            }
            worst = std::max(worst, fabsl(r) / (n * eps * sc));
        }
        g_worst = std::max(g_worst, (double)worst);
        if (worst > THR) {
            std::ostringstream os;
            os << "rhs=" << k << " ratio=" << (double)worst;
            emitViol("residual:" + A.family.substr(0, A.family.find('+')) + ":ctor" + std::to_string(A.ctor),
                     "A x != b beyond rounding accuracy", A, os.str());
            return;
        }
        // later right-hand sides are unaffected by earlier ones: bitwise equal to a fresh solver
        if (k == rhs.size() - 3 || k == 1) {
            SparseMatrixCSR<double> M2 = build(A);
            SparseLUSolver<double> F(M2);
            Vector<double> y(n);
            for (int i = 0; i < n; i++)
                y[i] = rhs[k][i];
            F.solveInPlace(y);
            g_solves++;
            if (memcmp(y.begin(), x.begin(), sizeof(double) * n) != 0) {
                emitViol("history:fresh-vs-used", "solve #k on a used solver differs bitwise from a fresh solver", A,
                         "rhs=" + std::to_string(k));
                return;
            }
        }
    }
    if (g_samples < 4 && g_mats % 1499 == 7) {
        g_samples++;
        printf("SAMPLE %s\n", specOf(A).c_str());
    }
}

static bool mine()
{
    return (g_counter++ % g_nparts) == g_part;
}

static const double OFFS[] = {-1.0, 0.5, 2.0, -0.25};

// builds a strictly diagonally dominant, non-symmetric matrix on the given off-diagonal pattern
static std::vector<std::vector<double>> denseFromPattern(int n, unsigned long mask, int assign, bool storedZeros,
                                                         std::vector<std::vector<char>>& present)
{
    std::vector<std::vector<double>> D(n, std::vector<double>(n, 0.0));
    present.assign(n, std::vector<char>(n, 0));
    int bit = 0;
    for (int i = 0; i < n; i++)
        for (int j = 0; j < n; j++) {
            if (i == j)
                continue;
            if (mask & (1ul << bit)) {
                present[i][j] = 1;
                D[i][j]       = OFFS[(i * 3 + j * 5 + assign * 7) % 4] * (1 + ((i + 2 * j + assign) % 3));
            }
            bit++;
        }
    if (storedZeros)
        for (int i = 0; i < n; i++)
            for (int j = 0; j < n; j++)
                if (i != j && present[i][j]) {
                    D[i][j] = 0.0; // first stored off-diagonal of every row becomes an explicit zero
                    break;
                }
    for (int i = 0; i < n; i++) {
        double s = 0;
        for (int j = 0; j < n; j++)
            if (j != i)
                s += fabs(D[i][j]);
        D[i][i]       = (s + 1.0 + 0.5 * i) * ((i + assign) % 2 ? -1.0 : 1.0); // either sign, strictly dominant
        present[i][i] = 1;
    }
    return D;
}

static void emitWithOrders(int n, const std::vector<std::vector<double>>& D,
                           const std::vector<std::vector<char>>& present, const std::string& family, bool allPerms,
                           const std::vector<double>& scale, const std::vector<double>& bound)
{
    // canonical (sorted) rows
    std::vector<std::vector<Entry>> base(n);
    for (int i = 0; i < n; i++)
        for (int j = 0; j < n; j++)
            if (present[i][j])
                base[i].push_back({j, D[i][j] * scale[i]});
    std::vector<double> sb = bound;
    for (int i = 0; i < n && !sb.empty(); i++)
        sb[i] *= fabs(scale[i]);
    if (allPerms) {
        // every order of the entries within every row (product over rows)
        std::vector<std::vector<std::vector<Entry>>> perRow(n);
        for (int i = 0; i < n; i++) {
            std::vector<int> idx(base[i].size());
            for (size_t k = 0; k < idx.size(); k++)
                idx[k] = (int)k;
            do {
                std::vector<Entry> r;
                for (int k : idx)
                    r.push_back(base[i][k]);
                perRow[i].push_back(r);
            } while (std::next_permutation(idx.begin(), idx.end()));
        }
        std::vector<size_t> ctr(n, 0);
        long combo = 0;
        while (true) {
            if (mine()) {
                Mat A;
                A.n          = n;
                A.family     = family + "+allorders";
                A.ctor       = (int)(combo % 3);
                A.scaleBound = sb;
                for (int i = 0; i < n; i++)
                    A.rows.push_back(perRow[i][ctr[i]]);
                checkMatrix(A);
            }
            combo++;
            int i = 0;
            while (i < n && ++ctr[i] == perRow[i].size()) {
                ctr[i] = 0;
                i++;
            }
            if (i == n)
                break;
        }
    }
    else {
        for (int variant = 0; variant < 4; variant++) { // sorted, reversed, rotated by one, diagonal last
            for (int ctor = 0; ctor < 3; ctor++) {
                if (!mine())
                    continue;
                Mat A;
                A.n          = n;
                A.ctor       = ctor;
                A.scaleBound = sb;
                A.family     = family + "+order" + std::to_string(variant);
                for (int i = 0; i < n; i++) {
                    std::vector<Entry> r = base[i];
                    if (variant == 1)
                        std::reverse(r.begin(), r.end());
                    else if (variant == 2 && r.size() > 1)
                        std::rotate(r.begin(), r.begin() + 1, r.end());
                    else if (variant == 3) {
                        auto it = std::find_if(r.begin(), r.end(), [&](const Entry& e) {
                            return e.col == i;
                        });
                        if (it != r.end()) {
                            Entry d = *it;
                            r.erase(it);
                            r.push_back(d);
                        }
                    }
                    A.rows.push_back(r);
                }
                checkMatrix(A);
            }
        }
    }
}

static std::vector<std::vector<double>> SCALES(int n)
{
    std::vector<std::vector<double>> s;
    s.push_back(std::vector<double>(n, 1.0));
    std::vector<double> a(n), b(n), c(n);
    for (int i = 0; i < n; i++) {
        a[i] = (i % 2) ? 1e6 : 1e-6;
        b[i] = (i == 0) ? 1e-6 : 1.0;
        c[i] = pow(10.0, -6.0 + 12.0 * i / std::max(1, n - 1));
    }
    s.push_back(a);
    s.push_back(b);
    s.push_back(c);
    return s;
}

static void family(const std::string& name, int n, const std::vector<std::pair<int, int>>& offdiag, bool thorough)
{
    unsigned long dummy = 0;
    (void)dummy;
    for (int assign = 0; assign < (thorough ? 4 : 2); assign++) {
        std::vector<std::vector<double>> D(n, std::vector<double>(n, 0.0));
        std::vector<std::vector<char>> present(n, std::vector<char>(n, 0));
        for (auto& p : offdiag) {
            present[p.first][p.second] = 1;
            D[p.first][p.second] =
                OFFS[(p.first * 3 + p.second * 5 + assign * 7) % 4] * (1 + ((p.first + 2 * p.second + assign) % 3));
        }
        for (int i = 0; i < n; i++) {
            double s = 0;
            for (int j = 0; j < n; j++)
                if (j != i)
                    s += fabs(D[i][j]);
            D[i][i]       = (s + 1.0 + 0.5 * i) * ((i + assign) % 2 ? -1.0 : 1.0);
            present[i][i] = 1;
        }
        for (auto& sc : SCALES(n))
            emitWithOrders(n, D, present, name, false, sc, {});
    }
}

static void enumerate(bool thorough)
{
    // n = 1
    for (double v : {1.0, -2.5, 1e-6, 1e6}) {
        if (!mine())
            continue;
        for (int ctor = 0; ctor < 3; ctor++) {
            Mat A;
            A.n      = 1;
            A.ctor   = ctor;
            A.family = "n1";
            A.rows   = {{{0, v}}};
            checkMatrix(A);
        }
    }
    // n = 2..4: ALL off-diagonal sparsity patterns
    for (int n = 2; n <= 4; n++) {
        int bits = n * (n - 1);
        for (unsigned long mask = 0; mask < (1ul << bits); mask++) {
            for (int assign = 0; assign < (thorough ? 4 : 2); assign++) {
                for (int zeros = 0; zeros < 2; zeros++) {
                    std::vector<std::vector<char>> present;
                    auto D = denseFromPattern(n, mask, assign, zeros, present);
                    auto scs = SCALES(n);
                    bool allPerms = (n <= 3) || (thorough && (mask % 16 == 5));
                    for (size_t s = 0; s < scs.size(); s++) {
                        if (s > 0 && n == 4 && !thorough && (mask % 8 != 3))
                            continue;
                        emitWithOrders(n, D, present, "pattern", allPerms && s == 0, scs[s], {});
                        if (allPerms && s > 0)
                            emitWithOrders(n, D, present, "pattern", false, scs[s], {});
                    }
                }
            }
        }
    }
    // L*U products: LU without pivoting exists by construction although A is not diagonally dominant
    for (int n = 2; n <= (thorough ? 6 : 4); n++) {
        int nl     = n * (n - 1) / 2;
        long total = 1;
        for (int i = 0; i < nl; i++)
            total *= 3;
        long stride = total > 2000 ? total / 1000 : 1;
        static const double LV[] = {0.0, 2.0, -1.5};
        static const double UD[] = {1.0, -2.0, 0.5};
        for (long code = 0; code < total; code += stride) {
            std::vector<std::vector<double>> L(n, std::vector<double>(n, 0.0)), U = L;
            long t = code;
            for (int i = 0; i < n; i++)
                for (int j = 0; j < i; j++) {
                    L[i][j] = LV[t % 3];
                    U[j][i] = LV[(t + i + j) % 3] * 0.5;
                    t /= 3;
                }
            for (int i = 0; i < n; i++) {
                L[i][i] = 1.0;
                U[i][i] = UD[(i + code) % 3];
            }
            std::vector<std::vector<double>> D(n, std::vector<double>(n, 0.0));
            std::vector<std::vector<char>> present(n, std::vector<char>(n, 0));
            std::vector<double> bound(n, 0.0);
            for (int i = 0; i < n; i++)
                for (int j = 0; j < n; j++) {
                    double s = 0, a = 0;
                    for (int k = 0; k < n; k++) {
                        s += L[i][k] * U[k][j];
                        a += fabs(L[i][k]) * fabs(U[k][j]);
                    }
                    D[i][j] = s;
                    bound[i] += a;
                    // structural pattern of the product (cancellation to exact zero is kept as a stored zero
                    // on every second code so that both storage conventions are exercised)
                    if (a != 0 && (s != 0 || code % 2 == 0))
                        present[i][j] = 1;
                }
            std::vector<double> ones(n, 1.0);
            emitWithOrders(n, D, present, "LUproduct", false, ones, bound);
        }
    }
    // structured families for larger n
    std::vector<int> sizes = thorough ? std::vector<int>{5, 6, 8, 12} : std::vector<int>{5, 6, 8};
    for (int n : sizes) {
        std::vector<std::pair<int, int>> tri, penta, arrowGood, arrowBad, dense;
        for (int i = 0; i < n; i++)
            for (int j = 0; j < n; j++) {
                if (i == j)
                    continue;
                if (abs(i - j) == 1)
                    tri.push_back({i, j});
                if (abs(i - j) <= 2)
                    penta.push_back({i, j});
                if (i == n - 1 || j == n - 1)
                    arrowGood.push_back({i, j}); // no fill-in
                if (i == 0 || j == 0)
                    arrowBad.push_back({i, j}); // complete fill-in
                dense.push_back({i, j});
            }
        family("tridiagonal", n, tri, thorough);
        family("pentadiagonal", n, penta, thorough);
        family("arrow-nofill", n, arrowGood, thorough);
        family("arrow-maxfill", n, arrowBad, thorough);
        family("dense", n, dense, thorough);
        // one-sided patterns: strictly lower / strictly upper couplings only
        std::vector<std::pair<int, int>> lower, upper;
        for (auto& p : dense)
            (p.first > p.second ? lower : upper).push_back(p);
        family("lower-only", n, lower, thorough);
        family("upper-only", n, upper, thorough);
    }
    // PDE-like 5-point couplings on small rectangles, plus a periodic wrap (like a circle line)
    for (auto dims : std::vector<std::pair<int, int>>{{2, 3}, {2, 4}, {3, 3}, {3, 4}}) {
        int nx = dims.first, ny = dims.second, n = nx * ny;
        if (n > 8 && !thorough)
            continue;
        std::vector<std::pair<int, int>> five, wrap;
        for (int x = 0; x < nx; x++)
            for (int y = 0; y < ny; y++) {
                int c = x * ny + y;
                if (x > 0)
                    five.push_back({c, c - ny});
                if (x + 1 < nx)
                    five.push_back({c, c + ny});
                if (y > 0)
                    five.push_back({c, c - 1});
                if (y + 1 < ny)
                    five.push_back({c, c + 1});
            }
        wrap = five;
        for (int x = 0; x < nx && ny > 2; x++) {
            wrap.push_back({x * ny, x * ny + ny - 1});
            wrap.push_back({x * ny + ny - 1, x * ny});
        }
        family("fivepoint" + std::to_string(nx) + "x" + std::to_string(ny), n, five, thorough);
        family("fivepoint-periodic" + std::to_string(nx) + "x" + std::to_string(ny), n, wrap, thorough);
    }
}

int main(int argc, char** argv)
{
    std::string mode = argc > 1 ? argv[1] : "enumerate";
    if (mode == "replay") {
        char buf[1 << 16];
        while (fgets(buf, sizeof buf, stdin)) {
            std::istringstream is(buf);
            std::string tok;
            Mat A;
            A.n = 0;
            while (is >> tok) {
                auto p = tok.find('=');
                if (p == std::string::npos)
                    continue;
                std::string k = tok.substr(0, p), v = tok.substr(p + 1);
                if (k == "n")
                    A.n = atoi(v.c_str());
                else if (k == "ctor")
                    A.ctor = atoi(v.c_str());
                else if (k == "family")
                    A.family = v;
                else if (k == "bound") {
                    std::istringstream bs(v);
                    std::string t;
                    while (std::getline(bs, t, ','))
                        A.scaleBound.push_back(strtod(t.c_str(), nullptr));
                }
                else if (k == "rows") {
                    std::istringstream rs(v);
                    std::string row;
                    while (std::getline(rs, row, ';')) {
                        std::vector<Entry> r;
                        std::istringstream es(row);
                        std::string e;
                        while (std::getline(es, e, ',')) {
                            auto c = e.find(':');
                            if (c == std::string::npos)
                                continue;
                            r.push_back({atoi(e.substr(0, c).c_str()), strtod(e.substr(c + 1).c_str(), nullptr)});
                        }
                        A.rows.push_back(r);
                    }
                }
            }
            while ((int)A.rows.size() < A.n)
                A.rows.push_back({});
            if (A.n >= 1)
                checkMatrix(A);
        }
    }
    else {
        bool thorough = argc > 2 && std::string(argv[2]) == "thorough";
        g_part        = argc > 3 ? atoi(argv[3]) : 0;
        g_nparts      = argc > 4 ? atoi(argv[4]) : 1;
        enumerate(thorough);
    }
    printf("STAT matrices %ld\nSTAT solves %ld\nSTAT distinct_patterns %zu\nSTAT worst_ratio %.6g\nSTAT violations %ld\n",
           g_mats, g_solves, g_distinctPatterns.size(), g_worst, g_viol);
    return 0;
}
