// gmg: probes on the ASSEMBLED solver (cfglat / histbfs engines).  One stdin line per case; one "RES ..." line per
// case is appended to the result file given as argv[1] (stdout is left to the solver's own chatter).
//
// modes:  solve     setup()+solve() through the public API; statistics, independent residual, exact errors
//         fmgstart  FMG start-up (maxIterations = 0) over object histories + harness-side nested iteration
//         hist      a history of (options, setup, solve x n) blocks on ONE object vs fresh objects
#include <algorithm>
#include <set>
#include <csignal>
#include <fstream>

#include "gmgcfg.h"

using namespace vh;

static FILE* g_out = nullptr;

static std::string hexd(double x)
{
    char b[64];
    snprintf(b, sizeof b, "%a", x);
    return b;
}
static std::string dec(double x)
{
    char b[64];
    snprintf(b, sizeof b, "%.17g", x);
    return b;
}

struct Obs {
    int its = -1;
    double rho = 0, e2 = -1, einf = -1;
    uint64_t solhash = 0;
    bool finite = true;
    int nr = 0, nt = 0, levels = 0;
    std::string str() const
    {
        std::ostringstream os;
        os << "its=" << its << " rho=" << hexd(rho) << " e2=" << hexd(e2) << " einf=" << hexd(einf) << " sol=" << solhash
           << " finite=" << finite;
        return os.str();
    }
    bool operator==(const Obs& o) const
    {
        return its == o.its && std::memcmp(&rho, &o.rho, 8) == 0 && std::memcmp(&e2, &o.e2, 8) == 0 &&
               std::memcmp(&einf, &o.einf, 8) == 0 && solhash == o.solhash;
    }
};

static Obs observe(GMGPolar& s, const Cfg& k)
{
    Obs o;
    o.its          = s.numberOfIterations();
    o.rho          = s.meanResidualReductionFactor();
    const auto& u  = s.solution();
    o.solhash      = hashVec(u);
    for (int i = 0; i < u.size(); i++)
        if (!std::isfinite(u[i]))
            o.finite = false;
    // the error figures are read the way a user reads them - through the getters, whether or not an exact solution is attached
    // (without one they must report "no value": -1 here; -2 marks a getter that has a value although no exact solution is set)
    {
        auto a = s.exactErrorWeightedEuclidean();
        auto b = s.exactErrorInfinity();
        if (a.has_value() && b.has_value()) {
            o.e2   = k.exact ? a.value() : -2.0;
            o.einf = k.exact ? b.value() : -2.0;
        }
        else if (a.has_value() != b.has_value())
            o.e2 = o.einf = -3.0;
    }
    o.nr     = s.grid().nr();
    o.nt     = s.grid().ntheta();
    o.levels = s.number_of_levels_;
    return o;
}

// dirties the stack region that the next call will use, so that uninitialised locals cannot hide behind zeros
static volatile unsigned char g_sink;
__attribute__((noinline)) static void dirtyStack(int pattern)
{
    volatile unsigned char buf[96 * 1024];
    for (size_t i = 0; i < sizeof buf; i++)
        buf[i] = (unsigned char)pattern;
    g_sink = buf[(size_t)pattern % sizeof buf];
}

static void modeSolve(const Case& c)
{
    Cfg k               = Cfg::fromCase(c);
    const std::string id = c.str("id", "case");
    std::ostringstream os;
    os << "RES id=" << id << " ";
    try {
        auto s = makeSolver(k);
        s->setup();
        if (c.has("stackfill"))
            dirtyStack(c.i("stackfill"));
        s->solve();
        Obs o = observe(*s, k);
        os << "status=ok " << o.str() << " nr=" << o.nr << " nt=" << o.nt << " levels=" << o.levels;
        os << " nres=" << s->residual_norms_.size() << " nerr=" << s->exact_errors_.size();
        if (!s->residual_norms_.empty())
            os << " lastres=" << dec(s->residual_norms_.back()) << " firstres=" << dec(s->residual_norms_.front());
        if (k.exact) {
            auto ee = exactErrors(*s, k, s->solution());
            os << " he2=" << dec(ee.first) << " heinf=" << dec(ee.second);
        }
        os << " e2d=" << dec(o.e2) << " einfd=" << dec(o.einf) << " rhod=" << dec(o.rho);
        // independent residual of the returned solution
        if (c.i("indep", 0) && o.finite) {
            IndependentResidual IR(*s, k);
            Vector<double> r = IR.residual(s->solution(), s->grid(), k.extr != 0);
            os << " indep=" << dec(normOf(r, k.norm));
            // residual of the start vector: zero, or the FMG start vector of an identical solver
            Vector<double> u0(s->solution().size());
            zero(u0);
            if (k.fmg) {
                Cfg k0   = k;
                k0.maxit = 0;
                auto s0  = makeSolver(k0);
                s0->setup();
                s0->solve();
                u0 = s0->solution();
            }
            Vector<double> r0 = IR.residual(u0, s->grid(), k.extr != 0);
            os << " indep0=" << dec(normOf(r0, k.norm));
        }
    }
    catch (const std::exception& e) {
        std::string w = e.what();
        for (auto& ch : w)
            if (ch == ' ' || ch == '\n')
                ch = '_';
        os << " status=exception what=" << w;
    }
    fprintf(g_out, "%s\n", os.str().c_str());
    fflush(g_out);
}

// ------------------------------------------------------------------------------------------
// C09 part 2: FMG start-up
// ------------------------------------------------------------------------------------------
static void fillWork(GMGPolar& s, uint64_t seed)
{
    for (size_t d = 0; d < s.levels_.size(); d++) {
        fill(s.levels_[d].solution(), seed + 10 * d + 1);
        fill(s.levels_[d].residual(), seed + 10 * d + 2);
        fill(s.levels_[d].error_correction(), seed + 10 * d + 3);
    }
}

static void runCycle(GMGPolar& s, int type, bool extrap, int depth, Vector<double>& sol, Vector<double>& rhs,
                     Vector<double>& res)
{
    if (extrap) {
        if (type == 0)
            s.implicitlyExtrapolatedMultigrid_V_Cycle(depth, sol, rhs, res);
        else if (type == 1)
            s.implicitlyExtrapolatedMultigrid_W_Cycle(depth, sol, rhs, res);
        else
            s.implicitlyExtrapolatedMultigrid_F_Cycle(depth, sol, rhs, res);
    }
    else {
        if (type == 0)
            s.multigrid_V_Cycle(depth, sol, rhs, res);
        else if (type == 1)
            s.multigrid_W_Cycle(depth, sol, rhs, res);
        else
            s.multigrid_F_Cycle(depth, sol, rhs, res);
    }
}

// One multigrid cycle written from the documented scheme with the PUBLIC operators of the levels only (smoother, residual,
// transfers, coarse solve) and harness-owned vectors - none of the solver's private cycle functions, none of its work vectors:
//   pre-smooth; r = f - A u; restrict (extrapolated on level 0: 4/3 R_ex r - 1/3 (f_c - A_c J u)); coarse error from zero by
//   direct solve on the coarsest level, else by gamma recursive plain cycles (V: one; W: two; F: an F- then a V-cycle);
//   prolongate, add; post-smooth.
static void refCycle(GMGPolar& s, int type, bool extrap, int l, Vector<double>& u, const Vector<double>& f,
                     const std::vector<Vector<double>>* levelRhs = nullptr)
{
    Level& L  = s.levels_[l];
    Level& C  = s.levels_[l + 1];
    const int N = L.grid().numberOfNodes(), Nc = C.grid().numberOfNodes();
    const bool ex0  = extrap && l == 0;
    const bool exSm = ex0 && !s.full_grid_smoothing_;
    Vector<double> tmp(N), r(N), rc(Nc), ec(Nc), e(N);
    for (int q = 0; q < s.pre_smoothing_steps_; q++) {
        if (exSm)
            L.extrapolatedSmoothing(u, f, tmp);
        else
            L.smoothing(u, f, tmp);
    }
    L.computeResidual(r, f, u);
    if (ex0) {
        Vector<double> uc(Nc), r2(Nc);
        s.interpolation_->applyExtrapolatedRestriction(L, C, rc, r);
        s.interpolation_->applyInjection(L, C, uc, u);
        // the coarse right-hand side of the extrapolated system: the level's own, or the caller's independently built one
        C.computeResidual(r2, levelRhs ? (*levelRhs)[l + 1] : C.rhs(), uc);
        for (int i = 0; i < Nc; i++)
            rc[i] = 4.0 / 3.0 * rc[i] - 1.0 / 3.0 * r2[i];
    }
    else
        s.interpolation_->applyRestriction(L, C, rc, r);
    if (l + 1 == s.number_of_levels_ - 1) {
        ec = rc;
        C.directSolveInPlace(ec);
    }
    else {
        for (int i = 0; i < Nc; i++)
            ec[i] = 0.0;
        if (type == 0)
            refCycle(s, 0, false, l + 1, ec, rc);
        else if (type == 1) {
            refCycle(s, 1, false, l + 1, ec, rc);
            refCycle(s, 1, false, l + 1, ec, rc);
        }
        else {
            refCycle(s, 2, false, l + 1, ec, rc);
            refCycle(s, 0, false, l + 1, ec, rc);
        }
    }
    if (ex0)
        s.interpolation_->applyExtrapolatedProlongation(C, L, e, ec);
    else
        s.interpolation_->applyProlongation(C, L, e, ec);
    for (int i = 0; i < N; i++)
        u[i] += e[i];
    for (int q = 0; q < s.post_smoothing_steps_; q++) {
        if (exSm)
            L.extrapolatedSmoothing(u, f, tmp);
        else
            L.smoothing(u, f, tmp);
    }
}

// nested iteration written from the documented description, using the solver object's own operators
static Vector<double> referenceNestedIteration(const Cfg& k)
{
    auto s = makeSolver(k);
    s->setup();
    const int L = s->number_of_levels_;
    // the discretised right-hand side of EVERY level, built by the harness from the problem data and the level's grid (not the
    // vectors setup() stored in the levels: which levels it fills, and with what, is part of what is judged)
    Problem p = k.problem();
    std::vector<Vector<double>> rhsL(L);
    for (int l = 0; l < L; l++) {
        rhsL[l] = Vector<double>(s->levels_[l].grid().numberOfNodes());
        IndependentResidual::buildRhs(s->levels_[l].grid(), p, k.dirbc != 0, rhsL[l]);
    }
    std::vector<Vector<double>> x(L);
    x[L - 1] = rhsL[L - 1];
    s->levels_[L - 1].directSolveInPlace(x[L - 1]);
    for (int l = L - 1; l >= 1; l--) {
        x[l - 1] = Vector<double>(s->levels_[l - 1].grid().numberOfNodes());
        s->interpolation_->applyFMGInterpolation(s->levels_[l], s->levels_[l - 1], x[l - 1], x[l]);
        for (int it = 0; it < k.fmg_it; it++) {
            bool extrap = (l - 1 == 0) && (k.extr != 0);
            refCycle(*s, k.fmg_cycle, extrap, l - 1, x[l - 1], rhsL[l - 1], &rhsL);
        }
    }
    return x[0];
}

static void modeFmgStart(const Case& c)
{
    Cfg k                = Cfg::fromCase(c);
    k.fmg                = 1;
    k.maxit              = 0;
    const std::string id = c.str("id", "case");
    uint64_t seed        = (uint64_t)c.i("seed", 0);
    std::ostringstream os;
    os << "RES id=" << id << " ";
    try {
        // history A: fresh object
        auto a = makeSolver(k);
        a->setup();
        a->solve();
        Vector<double> uA = a->solution();
        int L             = a->number_of_levels_;
        // history B: the object has solved another configuration before
        Cfg other   = k;
        other.fmg   = 0;
        other.maxit = 3;
        other.extr  = (k.extr == 0) ? 1 : 0;
        other.div2  = k.div2;
        auto b      = makeSolver(other);
        b->setup();
        b->solve();
        applyOptions(*b, k);
        b->setup();
        b->solve();
        Vector<double> uB = b->solution();
        // history C: every work vector of every level holds arbitrary old data
        auto cS = makeSolver(k);
        cS->setup();
        fillWork(*cS, seed + 77);
        cS->solve();
        Vector<double> uC = cS->solution();
        // history D: solve() again without setup()
        a->solve();
        Vector<double> uD = a->solution();
        // history E: a previous full solve on the same object and same options but with iterations
        Cfg withIt   = k;
        withIt.maxit = 150; // a complete solve: the combined mode switches its smoother from the residual history
        auto e       = makeSolver(withIt);
        e->setup();
        e->solve();
        e->maxIterations(0);
        e->solve();
        Vector<double> uE = e->solution();

        Vector<double> ref = referenceNestedIteration(k);
        auto same          = [&](const Vector<double>& p, const Vector<double>& q) {
            return p.size() == q.size() && std::memcmp(p.begin(), q.begin(), sizeof(double) * p.size()) == 0;
        };
        double dref = 0, nref = 0;
        bool fin = true;
        for (int i = 0; i < ref.size(); i++) {
            dref = std::max(dref, std::fabs(ref[i] - uA[i]));
            nref = std::max(nref, std::fabs(ref[i]));
            if (!std::isfinite(uA[i]))
                fin = false;
        }
        auto eA = exactErrors(*a, k, uA);
        auto eR = exactErrors(*a, k, ref);
        // converged solution's error for the accuracy statement
        Cfg conv   = k;
        conv.maxit = 150;
        auto cv    = makeSolver(conv);
        cv->setup();
        cv->solve();
        auto eC = exactErrors(*cv, conv, cv->solution());
        os << "status=ok levels=" << L << " nr=" << a->grid().nr() << " nt=" << a->grid().ntheta()
           << " sameB=" << same(uA, uB) << " sameC=" << same(uA, uC) << " sameD=" << same(uA, uD) << " sameE=" << same(uA, uE)
           << " finite=" << fin << " dref=" << dec(dref) << " nref=" << dec(nref) << " e2start=" << dec(eA.first)
           << " einfstart=" << dec(eA.second) << " e2ref=" << dec(eR.first) << " e2conv=" << dec(eC.first)
           << " einfconv=" << dec(eC.second) << " hashA=" << hashVec(uA);
    }
    catch (const std::exception& ex) {
        std::string w = ex.what();
        for (auto& ch : w)
            if (ch == ' ' || ch == '\n')
                ch = '_';
        os << " status=exception what=" << w;
    }
    fprintf(g_out, "%s\n", os.str().c_str());
    fflush(g_out);
}

// ------------------------------------------------------------------------------------------
// C13: histories on one object.   hist=<tuple>:<nsolves>,<tuple>:<nsolves>,...   tuples given as t0=..;t1=..
// each tuple is a ';'-separated list of key:value overrides of the case's base configuration
// ------------------------------------------------------------------------------------------
static Cfg tupleCfg(const Case& c, int t)
{
    Case cc = c;
    std::string spec = c.str("t" + std::to_string(t));
    std::istringstream is(spec);
    std::string kv;
    while (std::getline(is, kv, ';')) {
        auto p = kv.find(':');
        if (p != std::string::npos)
            cc.kv[kv.substr(0, p)] = kv.substr(p + 1);
    }
    return Cfg::fromCase(cc);
}

static std::string hiddenState(const GMGPolar& s)
{
    std::ostringstream os;
    os << "L" << s.number_of_levels_ << ":nres" << s.residual_norms_.size() << ":nerr" << s.exact_errors_.size() << ":fgs"
       << s.full_grid_smoothing_ << ":its" << s.number_of_iterations_ << ":lev" << s.levels_.size() << ":tpl"
       << s.threads_per_level_.size();
    return os.str();
}

static void modeHist(const Case& c)
{
    const std::string id = c.str("id", "case");
    std::ostringstream os;
    os << "RES id=" << id << " ";
    try {
        std::vector<std::pair<int, int>> blocks;
        {
            std::istringstream is(c.str("hist"));
            std::string b;
            while (std::getline(is, b, ',')) {
                auto p = b.find(':');
                blocks.push_back({std::stoi(b.substr(0, p)), std::stoi(b.substr(p + 1))});
            }
        }
        // fresh-object observations per tuple (setup + solve on a brand-new object)
        std::map<int, Obs> fresh;
        std::map<int, std::string> freshHidden;
        std::set<int> freshRejected;
        for (auto& b : blocks)
            if (!fresh.count(b.first)) {
                Cfg k = tupleCfg(c, b.first);
                try {
                    auto s = makeSolver(k);
                    s->setup();
                    s->solve();
                    fresh[b.first]       = observe(*s, k);
                    freshHidden[b.first] = hiddenState(*s);
                }
                catch (const std::exception&) {
                    // an option tuple a fresh object REJECTS: on the reused object it must be rejected too, and the object must
                    // stay usable for the blocks that follow
                    freshRejected.insert(b.first);
                    fresh[b.first]       = Obs();
                    freshHidden[b.first] = "rejected";
                }
            }
        // the history on ONE object
        Cfg k0 = tupleCfg(c, blocks[0].first);
        auto s = makeSolver(k0);
        // optdelta=1: later blocks call only the setters of options whose value changed (the options set earlier must persist);
        // optdelta=0: every block calls every setter again
        const bool deltaOnly = c.i("optdelta", 0) != 0;
        int step = 0, bad = -1;
        std::string badWhat, trace;
        for (size_t bi = 0; bi < blocks.size() && bad < 0; bi++) {
            Cfg k = tupleCfg(c, blocks[bi].first);
            if (bi > 0 && deltaOnly)
                applyOptionsDelta(*s, tupleCfg(c, blocks[bi - 1].first), k);
            else
                applyOptions(*s, k);
            if (k.exact) {
                Problem pe = k.problem();
                s->setSolution(std::move(pe.exact));
            }
            else
                s->setSolution(nullptr);
            const bool expectReject = freshRejected.count(blocks[bi].first) != 0;
            bool rejected           = false;
            try {
                if (blocks[bi].second >= 0)
                    s->setup();
            }
            catch (const std::exception& ex) {
                rejected = true;
                trace += "|rejected";
                if (!expectReject) {
                    bad     = step + 1;
                    badWhat = "block" + std::to_string(bi) + ":setup()_threw_on_the_reused_object_only:" + ex.what();
                    break;
                }
            }
            if (expectReject) {
                if (!rejected && blocks[bi].second >= 0) {
                    bad     = step + 1;
                    badWhat = "block" + std::to_string(bi) + ":options_a_fresh_object_rejects_are_accepted_by_the_reused_object";
                    break;
                }
                step++;
                continue; // the caller catches the exception, sets other options and goes on with the same object
            }
            for (int n = 0; n < std::abs(blocks[bi].second); n++) {
                s->solve();
                Obs o = observe(*s, k);
                trace += "|" + hiddenState(*s);
                step++;
                if (!(o == fresh[blocks[bi].first])) {
                    bad     = step;
                    badWhat = "block" + std::to_string(bi) + ".solve" + std::to_string(n) + ":got(" + o.str() +
                              ")fresh(" + fresh[blocks[bi].first].str() + ")";
                    break;
                }
            }
        }
        std::string hid = hiddenState(*s);
        for (auto& ch : badWhat)
            if (ch == ' ')
                ch = ',';
        os << "status=ok steps=" << step << " bad=" << bad << " what=" << (badWhat.empty() ? "-" : badWhat)
           << " hidden=" << hid << " freshhidden=" << freshHidden[blocks.back().first] << " trace=" << trace;
        // the fresh-object observations themselves, in the order they were made in this process (the checker compares them
        // with a process that has handled nothing else: process-global state must not leak into a fresh object either)
        os << " freshobs=";
        {
            std::vector<int> order;
            for (auto& b : blocks)
                if (std::find(order.begin(), order.end(), b.first) == order.end())
                    order.push_back(b.first);
            bool first = true;
            for (int t : order) {
                std::string o = fresh[t].str();
                for (auto& ch : o)
                    if (ch == ' ')
                        ch = ',';
                os << (first ? "" : "/") << "t" << t << ":" << o;
                first = false;
            }
        }
    }
    catch (const std::exception& ex) {
        std::string w = ex.what();
        for (auto& ch : w)
            if (ch == ' ' || ch == '\n')
                ch = '_';
        os << " status=exception what=" << w;
    }
    fprintf(g_out, "%s\n", os.str().c_str());
    fflush(g_out);
}


// ------------------------------------------------------------------------------------------
// C20: any option combination through the public API; the statistics are read the way a user reads them
// ------------------------------------------------------------------------------------------
static void modeOpt(const Case& c)
{
    Cfg k                = Cfg::fromCase(c);
    const std::string id = c.str("id", "case");
    std::ostringstream os;
    os << "RES id=" << id << " ";
    try {
        std::unique_ptr<GMGPolar> s;
        if (c.has("argv")) {
            // the command-line path of src/main.cpp: default constructor + setParameters(argc, argv) (arguments separated by '|')
            std::vector<std::string> args{"gmgpolar"};
            {
                std::istringstream is(c.str("argv"));
                std::string a;
                while (std::getline(is, a, '|'))
                    args.push_back(a);
            }
            std::vector<char*> av;
            for (auto& a : args)
                av.push_back(a.data());
            s = std::make_unique<GMGPolar>();
            if (c.has("argv0")) {
                // another command line parsed first on the same object (the default constructor itself parses an empty one): every
                // option of the second command line must replace what the first left behind
                std::vector<std::string> args0{"gmgpolar"};
                std::istringstream is(c.str("argv0"));
                std::string a;
                while (std::getline(is, a, '|'))
                    args0.push_back(a);
                std::vector<char*> av0;
                for (auto& x : args0)
                    av0.push_back(x.data());
                s->setParameters((int)av0.size(), av0.data());
            }
            s->setParameters((int)av.size(), av.data());
        }
        else
            s = makeSolver(k);
        // what the object believes its options are (the getters), whichever way they were set
        {
            os << "g_abstol=" << dec(s->absoluteTolerance()) << " g_reltol=" << dec(s->relativeTolerance())
               << " g_maxit=" << s->maxIterations() << " g_maxlev=" << s->maxLevels() << " g_pre=" << s->preSmoothingSteps()
               << " g_post=" << s->postSmoothingSteps() << " g_fmg=" << s->FMG() << " g_fmgit=" << s->FMG_iterations()
               << " g_extr=" << (int)s->extrapolation() << " g_cycle=" << (int)s->multigridCycle() << " g_fmgcycle=" << (int)s->FMG_cycle()
               << " g_norm=" << (int)s->residualNormType() << " g_strat=" << (int)s->stencilDistributionMethod()
               << " g_cc=" << s->cacheDensityProfileCoefficients() << " g_cg=" << s->cacheDomainGeometry() << " g_dirbc=" << s->DirBC_Interior()
               << " g_threads=" << s->maxOpenMPThreads() << " g_tfactor=" << dec(s->threadReductionFactor()) << " g_R0=" << dec(s->R0())
               << " g_Rmax=" << dec(s->Rmax()) << " g_nrexp=" << s->nr_exp() << " g_ntexp=" << s->ntheta_exp() << " g_aniso=" << s->anisotropic_factor()
               << " g_div2=" << s->divideBy2() << " ";
        }
        s->setup();
        if (c.has("stackfill"))
            dirtyStack(c.i("stackfill"));
        s->solve();
        if (c.has("stackfill"))
            dirtyStack(255 - c.i("stackfill"));
        const int its    = s->numberOfIterations();
        const double rho = s->meanResidualReductionFactor();
        double e2 = -1, einf = -1;
        int haveErr = 0;
        {
            // read through the getters whether or not an exact solution is attached (without one: no value)
            auto a = s->exactErrorWeightedEuclidean();
            auto b = s->exactErrorInfinity();
            if (a.has_value() && b.has_value()) {
                e2      = a.value();
                einf    = b.value();
                haveErr = 1;
            }
            else if (a.has_value() != b.has_value())
                haveErr = 2;
        }
        const auto& u = s->solution();
        bool finite   = true;
        for (int i = 0; i < u.size(); i++)
            if (!std::isfinite(u[i]))
                finite = false;
        os << "status=ok its=" << its << " rho=" << hexd(rho) << " rhod=" << dec(rho) << " haveerr=" << haveErr << " e2=" << hexd(e2)
           << " einf=" << hexd(einf) << " sol=" << hashVec(u) << " finite=" << finite << " nr=" << s->grid().nr()
           << " nt=" << s->grid().ntheta() << " levels=" << s->number_of_levels_;
        if (k.exact) {
            auto ee = exactErrors(*s, k, u);
            os << " he2=" << dec(ee.first) << " heinf=" << dec(ee.second) << " e2d=" << dec(e2);
        }
    }
    catch (const std::exception& e) {
        std::string w = e.what();
        for (auto& ch : w)
            if (ch == ' ' || ch == '\n')
                ch = '_';
        os << " status=exception what=" << w;
    }
    fprintf(g_out, "%s\n", os.str().c_str());
    fflush(g_out);
}

// ------------------------------------------------------------------------------------------
// C10: one multigrid cycle, called directly (private cycle functions reached with -fno-access-control)
// ------------------------------------------------------------------------------------------
static bool denseSolve(std::vector<double>& M, std::vector<double>& b, int n)
{
    // Gaussian elimination with partial pivoting, in place; b becomes the solution
    for (int c = 0; c < n; c++) {
        int p = c;
        double best = std::fabs(M[(size_t)c * n + c]);
        for (int r = c + 1; r < n; r++)
            if (std::fabs(M[(size_t)r * n + c]) > best) {
                best = std::fabs(M[(size_t)r * n + c]);
                p    = r;
            }
        if (best == 0.0)
            return false;
        if (p != c) {
            for (int k = c; k < n; k++)
                std::swap(M[(size_t)p * n + k], M[(size_t)c * n + k]);
            std::swap(b[p], b[c]);
        }
        const double piv = M[(size_t)c * n + c];
        for (int r = c + 1; r < n; r++) {
            double f = M[(size_t)r * n + c] / piv;
            if (f == 0.0)
                continue;
            double* Mr       = &M[(size_t)r * n];
            const double* Mc = &M[(size_t)c * n];
            for (int k = c + 1; k < n; k++)
                Mr[k] -= f * Mc[k];
            b[r] -= f * b[c];
        }
    }
    for (int r = n - 1; r >= 0; r--) {
        double sum = b[r];
        for (int k = r + 1; k < n; k++)
            sum -= M[(size_t)r * n + k] * b[k];
        b[r] = sum / M[(size_t)r * n + r];
    }
    return true;
}

static std::vector<double> extractDenseA(const Level& L)
{
    const int N = L.grid().numberOfNodes();
    std::vector<double> A((size_t)N * N, 0.0);
    Vector<double> x(N), f(N), y(N);
    zero(f);
    for (int j = 0; j < N; j++) {
        unit(x, j);
        L.computeResidual(y, f, x);
        for (int i = 0; i < N; i++)
            A[(size_t)i * N + j] = -y[i];
    }
    return A;
}

static double maxAbsDiff(const Vector<double>& a, const Vector<double>& b)
{
    double m = 0;
    for (int i = 0; i < a.size(); i++)
        m = std::max(m, std::fabs(a[i] - b[i]));
    return m;
}
static double maxAbs(const Vector<double>& a)
{
    double m = 0;
    for (int i = 0; i < a.size(); i++)
        m = std::max(m, std::fabs(a[i]));
    return m;
}
static bool bitEqual(const Vector<double>& p, const Vector<double>& q)
{
    return p.size() == q.size() && std::memcmp(p.begin(), q.begin(), sizeof(double) * p.size()) == 0;
}

// expected result of a two-level cycle without smoothing, formed from the public operators
static Vector<double> algebraicCorrection(GMGPolar& s, bool extrap, const Vector<double>& u, const Vector<double>& f,
                                          const Vector<double>& fc)
{
    Level& L0 = s.levels_[0];
    Level& L1 = s.levels_[1];
    const int N = L0.grid().numberOfNodes(), Nc = L1.grid().numberOfNodes();
    Vector<double> r(N), rc(Nc), e(N), out(N);
    L0.computeResidual(r, f, u);
    if (!extrap) {
        s.interpolation_->applyRestriction(L0, L1, rc, r);
        L1.directSolveInPlace(rc);
        s.interpolation_->applyProlongation(L1, L0, e, rc);
    }
    else {
        Vector<double> uc(Nc), r2(Nc);
        s.interpolation_->applyExtrapolatedRestriction(L0, L1, rc, r);
        s.interpolation_->applyInjection(L0, L1, uc, u);
        L1.computeResidual(r2, fc, uc);
        for (int i = 0; i < Nc; i++)
            rc[i] = 4.0 / 3.0 * rc[i] - 1.0 / 3.0 * r2[i];
        L1.directSolveInPlace(rc);
        s.interpolation_->applyExtrapolatedProlongation(L1, L0, e, rc);
    }
    for (int i = 0; i < N; i++)
        out[i] = u[i] + e[i];
    return out;
}

static void modeCycle(const Case& c)
{
    Cfg k                = Cfg::fromCase(c);
    k.fmg                = 0;
    const std::string id = c.str("id", "case");
    const bool extrap    = k.extr != 0;
    const int type       = k.cycle;
    uint64_t seed        = (uint64_t)c.i("seed", 0);
    std::ostringstream os;
    os << "RES id=" << id << " ";
    try {
        auto s = makeSolver(k);
        s->setup();
        const int L = s->number_of_levels_;
        Level& L0   = s->levels_[0];
        const int N = L0.grid().numberOfNodes();
        os << "status=ok levels=" << L << " nr=" << L0.grid().nr() << " nt=" << L0.grid().ntheta();

        // ---- (a) the exact solution of the system the cycle iterates on is a fixed point
        if (c.i("do_exact", 1)) {
            std::vector<double> A = extractDenseA(L0);
            std::vector<double> g(N);
            for (int i = 0; i < N; i++)
                g[i] = L0.rhs()[i];
            std::vector<double> M = A;
            // plain discrete solution first (also the control start for the extrapolated cycles)
            std::vector<double> Mplain = A, uplain = g;
            bool ok = denseSolve(Mplain, uplain, N);
            std::vector<double> ustar = uplain;
            if (extrap) {
                Level& L1           = s->levels_[1];
                const int Nc        = L1.grid().numberOfNodes();
                std::vector<double> Ac = extractDenseA(L1);
                const PolarGrid& fg = L0.grid();
                const PolarGrid& cg = L1.grid();
                for (int ci = 0; ci < cg.nr(); ci++)
                    for (int cj = 0; cj < cg.ntheta(); cj++) {
                        int cidx = cg.index(ci, cj), fi = fg.index(2 * ci, 2 * cj);
                        for (int j = 0; j < N; j++)
                            M[(size_t)fi * N + j] = 4.0 * A[(size_t)fi * N + j];
                        for (int c2 = 0; c2 < cg.nr(); c2++)
                            for (int c3 = 0; c3 < cg.ntheta(); c3++) {
                                double v = Ac[(size_t)cidx * Nc + cg.index(c2, c3)];
                                if (v != 0.0)
                                    M[(size_t)fi * N + fg.index(2 * c2, 2 * c3)] -= v;
                            }
                        g[fi] = 4.0 * L0.rhs()[fi] - L1.rhs()[cidx];
                    }
                ustar = g;
                ok    = ok && denseSolve(M, ustar, N);
            }
            Vector<double> u0(N), u1(N);
            for (int i = 0; i < N; i++)
                u0[i] = ustar[i];
            L0.solution() = u0;
            runCycle(*s, type, extrap, 0, L0.solution(), L0.rhs(), L0.residual());
            u1 = L0.solution();
            os << " solved=" << ok << " fixmove=" << dec(maxAbsDiff(u1, u0) / std::max(maxAbs(u0), 1e-300));
            if (extrap) {
                // control: the plain discrete solution is NOT a fixed point of the extrapolated cycle
                Vector<double> p0(N);
                for (int i = 0; i < N; i++)
                    p0[i] = uplain[i];
                L0.solution() = p0;
                runCycle(*s, type, extrap, 0, L0.solution(), L0.rhs(), L0.residual());
                os << " controlmove=" << dec(maxAbsDiff(L0.solution(), p0) / std::max(maxAbs(p0), 1e-300));
            }
        }
        // generic start vector
        Vector<double> start(N);
        for (int i = 0; i < N; i++)
            start[i] = 0.01 * filler(seed + 5, i);
        // ---- (d) two consecutive cycles from the same start on one object
        L0.solution() = start;
        runCycle(*s, type, extrap, 0, L0.solution(), L0.rhs(), L0.residual());
        Vector<double> r1 = L0.solution();
        L0.solution()     = start;
        runCycle(*s, type, extrap, 0, L0.solution(), L0.rhs(), L0.residual());
        Vector<double> r2 = L0.solution();
        bool finite       = true;
        for (int i = 0; i < N; i++)
            if (!std::isfinite(r1[i]))
                finite = false;
        os << " repeat=" << bitEqual(r1, r2) << " finite=" << finite;
        // ---- (c) scratch independence: a second object whose work vectors hold arbitrary old data
        {
            auto b = makeSolver(k);
            b->setup();
            for (size_t d = 1; d < b->levels_.size(); d++) {
                fill(b->levels_[d].solution(), seed + 10 * d + 1);
                fill(b->levels_[d].residual(), seed + 10 * d + 2);
                fill(b->levels_[d].error_correction(), seed + 10 * d + 3);
            }
            fill(b->levels_[0].residual(), seed + 4);
            b->levels_[0].solution() = start;
            runCycle(*b, type, extrap, 0, b->levels_[0].solution(), b->levels_[0].rhs(), b->levels_[0].residual());
            os << " scratch=" << bitEqual(b->levels_[0].solution(), r1)
               << " scratchdiff=" << dec(maxAbsDiff(b->levels_[0].solution(), r1));
        }
        // ---- (b) without smoothing a two-level cycle is the algebraic coarse-grid correction
        if (L == 2 && k.pre == 0 && k.post == 0 && c.i("do_alg", 1)) {
            Vector<double> fc = s->levels_[1].rhs().size() ? s->levels_[1].rhs() : Vector<double>(s->levels_[1].grid().numberOfNodes());
            double worst = 0, worstScale = 1;
            int worstCol = -1, cols = 0;
            Vector<double> u(N), f(N), res(N);
            for (int pass = 0; pass < 2; pass++)
                for (int j = 0; j < N + 2; j++) {
                    zero(u);
                    zero(f);
                    if (j < N)
                        (pass == 0 ? u : f)[j] = 1.0;
                    else {
                        for (int i = 0; i < N; i++) {
                            u[i] = 0.01 * filler(seed + 20 + j, i);
                            f[i] = 0.01 * filler(seed + 30 + j + pass, i);
                        }
                    }
                    Vector<double> expect = algebraicCorrection(*s, extrap, u, f, fc);
                    Vector<double> got = u, rhs = f;
                    fill(res, seed + 40 + j);
                    runCycle(*s, type, extrap, 0, got, rhs, res);
                    double d = maxAbsDiff(got, expect), sc = std::max(maxAbs(expect), 1e-300);
                    cols++;
                    if (d / sc > worst) {
                        worst    = d / sc;
                        worstCol = pass * (N + 2) + j;
                    }
                    (void)worstScale;
                }
            os << " algcols=" << cols << " algworst=" << dec(worst) << " algcol=" << worstCol;
        }
        // ---- (c) on EVERY hierarchy depth and with every smoothing count the cycle equals the reference cycle composed from the
        //          public operators (refCycle above): smoothing-step counters, which smoother runs on level 0, the level indices of
        //          the transfers, the recursion pattern of V / W / F and the zero start of every coarse solve are part of the scheme
        if (c.i("do_alg", 1)) {
            double worst = 0;
            int cols     = 0;
            Vector<double> u(N), f(N), res(N);
            for (int j = 0; j < 4; j++) {
                for (int i = 0; i < N; i++) {
                    u[i] = (j == 3 ? 100.0 : 0.01) * filler(seed + 50 + j, i);
                    f[i] = (j == 2 ? 0.0 : 0.01) * filler(seed + 60 + j, i);
                }
                Vector<double> expect = u;
                refCycle(*s, type, extrap, 0, expect, f);
                fillWork(*s, seed + 70 + j); // the solver's own work vectors hold old data when its cycle starts
                Vector<double> got = u, rhs2 = f;
                fill(res, seed + 90 + j);
                runCycle(*s, type, extrap, 0, got, rhs2, res);
                double d = maxAbsDiff(got, expect), sc = std::max(maxAbs(expect), 1e-300);
                cols++;
                worst = std::max(worst, d / sc);
            }
            os << " compcols=" << cols << " compworst=" << dec(worst);
        }
    }
    catch (const std::exception& ex) {
        std::string w = ex.what();
        for (auto& ch : w)
            if (ch == ' ' || ch == '\n')
                ch = '_';
        os << " status=exception what=" << w;
    }
    fprintf(g_out, "%s\n", os.str().c_str());
    fflush(g_out);
}

int main(int argc, char** argv)
{
    if (argc < 2) {
        fprintf(stderr, "usage: gmg <resultfile> < cases\n");
        return 2;
    }
    g_out = fopen(argv[1], "w");
    if (!g_out)
        return 3;
    std::string line;
    while (std::getline(std::cin, line)) {
        if (line.empty() || line[0] == '#')
            continue;
        Case c           = Case::parse(line);
        std::string mode = c.str("mode", "solve");
        fprintf(g_out, "BEGIN id=%s\n", c.str("id", "case").c_str());
        fflush(g_out);
        if (mode == "solve")
            modeSolve(c);
        else if (mode == "fmgstart")
            modeFmgStart(c);
        else if (mode == "hist")
            modeHist(c);
        else if (mode == "cycle")
            modeCycle(c);
        else if (mode == "opt")
            modeOpt(c);
    }
    fclose(g_out);
    return 0;
}
