// opalg: operator algebra probe.  For every case (one stdin line of key=value tokens) it builds the real
// PolarGrid / LevelCache / Level / Residual / Smoother / ExtrapolatedSmoother / DirectSolver / Interpolation
// objects and applies each operator to EVERY unit vector, streaming the resulting matrices to a binary
// record file (see hcommon.h).  The oracles live in Python (checks/opalg_lib.py, c03.py ... c10.py).
//
// usage: opalg <outfile> < cases
// case keys: id radii angles [split] geom prob alpha beta Rmax kappa delta ajump dirbc threads what=<a,b,...>
//            levels=<n> (chain depth for 'chain'/'T')  csplit=<coarse splitting radius for 'T'>
#include "hcommon.h"

using namespace vh;

struct Trip {
    std::vector<double> t; // row, col, val triplets
    void add(int r, int c, double v)
    {
        t.push_back(r);
        t.push_back(c);
        t.push_back(v);
    }
    void write(Out& o, const std::string& name, int rows, int cols)
    {
        // header triple carries the shape
        std::vector<double> all;
        all.push_back(rows);
        all.push_back(cols);
        all.push_back(0);
        all.insert(all.end(), t.begin(), t.end());
        o.mat(name, (uint32_t)(all.size() / 3), 3, all.data());
    }
};

static bool has(const std::string& what, const std::string& k)
{
    return ("," + what + ",").find("," + k + ",") != std::string::npos;
}

// ---- raw geometry / coefficient data at the nodes, evaluated directly from the input-function classes
static void dumpGeo(Out& o, const std::string& pre, const PolarGrid& g, const Problem& p, bool dirbc)
{
    const int nr = g.nr(), nt = g.ntheta(), N = nr * nt;
    std::vector<double> idx((size_t)N), J((size_t)N * 4), ab((size_t)nr * 2), meta;
    for (int i = 0; i < nr; i++) {
        double r      = g.radius(i);
        ab[2 * i]     = p.coef->alpha(r);
        ab[2 * i + 1] = p.coef->beta(r);
        for (int j = 0; j < nt; j++) {
            double th = g.theta(j), s = std::sin(th), c = std::cos(th);
            int k                   = g.index(i, j);
            idx[(size_t)i * nt + j] = k;
            J[(size_t)k * 4 + 0]    = p.geo->dFx_dr(r, th, s, c);
            J[(size_t)k * 4 + 1]    = p.geo->dFy_dr(r, th, s, c);
            J[(size_t)k * 4 + 2]    = p.geo->dFx_dt(r, th, s, c);
            J[(size_t)k * 4 + 3]    = p.geo->dFy_dt(r, th, s, c);
        }
    }
    meta = {(double)nr, (double)nt, (double)g.numberSmootherCircles(), (double)g.lengthSmootherRadial(),
            dirbc ? 1.0 : 0.0};
    o.vec(pre + "meta", meta);
    o.vec(pre + "radii", g.radii());
    o.vec(pre + "angles", g.angles());
    o.mat(pre + "idx", nr, nt, idx.data());
    o.mat(pre + "J", N, 4, J.data());
    o.mat(pre + "ab", nr, 2, ab.data());
}


// ---- linearity probes: the basis extraction decides the property only for a LINEAR (affine) operator.  Three generic
// vectors - O(1), uniformly tiny, uniformly huge - are pushed through the real operator; the oracle compares with the
// extracted matrix times the vector, so value-dependent shortcuts (absolute thresholds, clamps) cannot hide.
static const double LIN_SCALES[3] = {1.0, 1e-20, 1e18};
static std::vector<double> linInput(int n, int k, uint64_t salt)
{
    std::vector<double> v(n);
    for (int i = 0; i < n; i++)
        v[i] = LIN_SCALES[k] * 0.01 * filler(salt + 31 * k, i);
    return v;
}
template <class F>
static void linProbe(Out& o, const std::string& name, F&& apply, int nin, int nout, uint64_t salt)
{
    std::vector<double> X((size_t)3 * nin), Y((size_t)3 * nout);
    Vector<double> x(nin), y(nout);
    for (int k = 0; k < 3; k++) {
        std::vector<double> v = linInput(nin, k, salt);
        for (int i = 0; i < nin; i++) {
            x[i]                   = v[i];
            X[(size_t)k * nin + i] = v[i];
        }
        fill(y, 99 + k);
        apply(y, x);
        for (int i = 0; i < nout; i++)
            Y[(size_t)k * nout + i] = y[i];
    }
    o.mat(name + "_linx", 3, nin, X.data());
    o.mat(name + "_liny", 3, nout, Y.data());
}

template <class Res>
static void extractA(Out& o, const std::string& name, const Res& R, int N)
{
    Vector<double> x(N), f(N), y(N);
    Trip T;
    double affdev = 0.0;
    zero(f);
    for (int j = 0; j < N; j++) {
        unit(x, j);
        fill(y, 7 + j); // result must not depend on its previous contents
        R.computeResidual(y, f, x);
        for (int i = 0; i < N; i++)
            if (y[i] != 0.0)
                T.add(i, j, -y[i]);
    }
    zero(x);
    for (int j = 0; j < N; j++) {
        unit(f, j);
        fill(y, 11 + j);
        R.computeResidual(y, f, x);
        for (int i = 0; i < N; i++)
            affdev = std::max(affdev, std::fabs(y[i] - (i == j ? 1.0 : 0.0)));
    }
    T.write(o, name, N, N);
    o.scalar(name + "_affdev", affdev);
    linProbe(
        o, name,
        [&](Vector<double>& yy, const Vector<double>& xx) {
            zero(f);
            R.computeResidual(yy, f, xx);
            for (int i = 0; i < N; i++)
                yy[i] = -yy[i];
        },
        N, N, 1);
}

static double ulpDiff(double a, double b)
{
    if (a == b)
        return 0.0;
    if (!std::isfinite(a) || !std::isfinite(b))
        return 1e300;
    double scale = std::max(std::fabs(a), std::fabs(b));
    return std::fabs(a - b) / (scale * 2.220446049250313e-16);
}
template <class V>
static double maxUlp(const V& a, const V& b, int n)
{
    double m = 0;
    for (int i = 0; i < n; i++)
        m = std::max(m, ulpDiff(a[i], b[i]));
    return m;
}

static void residualSet(Out& o, const std::string& pre, const Level& lvl, const Problem& p, bool dirbc, int threads,
                        bool onlyCached, const std::string& TS = "")
{
    const PolarGrid& g    = lvl.grid();
    const LevelCache& lc  = lvl.levelCache();
    const int N           = g.numberOfNodes();
    std::string tag       = std::string(lc.cacheDensityProfileCoefficients() ? "1" : "0") +
                      (lc.cacheDomainGeometry() ? "1" : "0");
    {
        ResidualGive R(g, lc, *p.geo, *p.coef, dirbc, threads);
        extractA(o, pre + "A_give" + tag + TS, R, N);
    }
    if (lc.cacheDensityProfileCoefficients() && lc.cacheDomainGeometry()) {
        ResidualTake R(g, lc, *p.geo, *p.coef, dirbc, threads);
        extractA(o, pre + "A_take11" + TS, R, N);
    }
    (void)onlyCached;
}

static void dumpTridiag(Trip& T, const SymmetricTridiagonalSolver<double>& S, const std::vector<int>& nodes)
{
    int n = S.rows();
    if (n != (int)nodes.size())
        return;
    for (int i = 0; i < n; i++)
        T.add(nodes[i], nodes[i], S.main_diagonal_values_[i]);
    for (int i = 0; i + 1 < n; i++) {
        double v = S.sub_diagonal_values_[i];
        T.add(nodes[i], nodes[i + 1], v);
        T.add(nodes[i + 1], nodes[i], v);
    }
    if (S.is_cyclic_ && n >= 2) {
        double c = S.cyclic_corner_element_;
        // accumulate: for n == 2 the corner coincides with the off-diagonal
        T.add(nodes[0], nodes[n - 1], c);
        T.add(nodes[n - 1], nodes[0], c);
    }
}
static void dumpCSRBlock(Trip& T, const SparseMatrixCSR<double>& M, const std::vector<int>& nodes)
{
    for (int r = 0; r < M.rows(); r++)
        for (int k = 0; k < M.row_nz_size(r); k++)
            T.add(nodes[r], nodes[M.row_nz_index(r, k)], M.row_nz_entry(r, k));
}
static std::vector<int> circleNodes(const PolarGrid& g, int i_r)
{
    std::vector<int> v;
    for (int j = 0; j < g.ntheta(); j++)
        v.push_back(g.index(i_r, j));
    return v;
}
static std::vector<int> radialNodes(const PolarGrid& g, int i_theta)
{
    std::vector<int> v;
    for (int i = g.numberSmootherCircles(); i < g.nr(); i++)
        v.push_back(g.index(i, i_theta));
    return v;
}

// stored line matrices of a (non-extrapolated) smoother, read before the first solve
template <class Sm>
static void dumpSmootherLines(Out& o, const std::string& name, const Sm& S, const PolarGrid& g, bool dirbc)
{
    Trip T;
    int N = g.numberOfNodes();
    for (int i_r = 0; i_r < g.numberSmootherCircles(); i_r++) {
        if (i_r == 0) // the innermost circle is always held in the CSR matrix (identity rows with interior Dirichlet data)
            dumpCSRBlock(T, S.inner_boundary_circle_matrix_, circleNodes(g, 0));
        else
            dumpTridiag(T, S.circle_tridiagonal_solver_[i_r], circleNodes(g, i_r));
    }
    for (int j = 0; j < g.ntheta(); j++)
        dumpTridiag(T, S.radial_tridiagonal_solver_[j], radialNodes(g, j));
    T.write(o, name, N, N);
    o.scalar(name + "_innerCSRrows", (double)S.inner_boundary_circle_matrix_.rows());
    (void)dirbc;
}

template <class Sm, class F>
static void extractSB(Out& o, const std::string& name, F&& apply, int N)
{
    std::vector<double> S((size_t)N * N), B((size_t)N * N);
    Vector<double> x(N), f(N), t(N);
    for (int j = 0; j < N; j++) {
        unit(x, j);
        zero(f);
        fill(t, 3 + j);
        apply(x, f, t);
        for (int i = 0; i < N; i++)
            S[(size_t)i * N + j] = x[i];
    }
    for (int j = 0; j < N; j++) {
        zero(x);
        unit(f, j);
        fill(t, 5 + j);
        apply(x, f, t);
        for (int i = 0; i < N; i++)
            B[(size_t)i * N + j] = x[i];
    }
    o.mat(name + "_S", N, N, S.data());
    o.mat(name + "_B", N, N, B.data());
    // affine linearity probe: x' for (x, f) = (v_k, w_k)
    {
        std::vector<double> XV((size_t)3 * N), FV((size_t)3 * N), YV((size_t)3 * N);
        for (int k = 0; k < 3; k++) {
            std::vector<double> v = linInput(N, k, 5), w = linInput(N, k, 9);
            for (int i = 0; i < N; i++) {
                x[i]                  = v[i];
                f[i]                  = w[i];
                XV[(size_t)k * N + i] = v[i];
                FV[(size_t)k * N + i] = w[i];
            }
            fill(t, 17 + k);
            apply(x, f, t);
            for (int i = 0; i < N; i++)
                YV[(size_t)k * N + i] = x[i];
        }
        o.mat(name + "_linx", 3, N, XV.data());
        o.mat(name + "_linf", 3, N, FV.data());
        o.mat(name + "_liny", 3, N, YV.data());
    }
}

// bitwise invariance of coarse nodes under extrapolated smoothing
template <class F>
static void coarseBitwise(Out& o, const std::string& name, F&& apply, const PolarGrid& g, uint64_t seed)
{
    static const double alphabet[] = {0.0, -0.0, 1.0, 3.141592653589793, 1.0 / 3.0, 1e-150, 1e150, 4.9e-324, -7.25};
    const int N = g.numberOfNodes();
    long mism = 0, checked = 0;
    double firstBad = -1;
    for (int rep = 0; rep < 8; rep++) {
        Vector<double> x(N), f(N), t(N), x0(N);
        for (int k = 0; k < N; k++) {
            x[k] = filler(seed + rep, k) * 1e-3;
            f[k] = filler(seed + 100 + rep, k);
        }
        int c = rep;
        for (int i = 0; i < g.nr(); i += 2)
            for (int j = 0; j < g.ntheta(); j += 2)
                x[g.index(i, j)] = alphabet[(c++) % 9];
        x0 = x;
        fill(t, seed + 200 + rep);
        apply(x, f, t);
        for (int i = 0; i < g.nr(); i += 2)
            for (int j = 0; j < g.ntheta(); j += 2) {
                int k = g.index(i, j);
                checked++;
                if (std::memcmp(&x[k], &x0[k], sizeof(double)) != 0) {
                    mism++;
                    if (firstBad < 0)
                        firstBad = k;
                }
            }
        for (int k = 0; k < N; k++)
            if (!std::isfinite(x[k])) {
                mism += 0; // non-finite values elsewhere are not this oracle's business
            }
    }
    o.scalar(name + "_coarse_bit_mismatch", (double)mism);
    o.scalar(name + "_coarse_bit_checked", (double)checked);
    o.scalar(name + "_coarse_bit_first", firstBad);
}

template <class F>
static void extractOp(Out& o, const std::string& name, F&& apply, int nin, int nout)
{
    Trip T;
    Vector<double> x(nin), y(nout);
    for (int j = 0; j < nin; j++) {
        unit(x, j);
        fill(y, 13 + j);
        apply(y, x);
        for (int i = 0; i < nout; i++)
            if (y[i] != 0.0)
                T.add(i, j, y[i]);
    }
    T.write(o, name, nout, nin);
    linProbe(o, name, apply, nin, nout, 3);
}

static void runThreaded(const Case& c, Out& o, const Problem& p, const PolarGrid& grid, const std::string& what,
                        const std::string& pre, const bool dirbc, const int N, const int threads, const bool first);

static void runCase(const Case& c, Out& o)
{
    const std::string id   = c.str("id", "case");
    const std::string pre  = id + "/";
    const std::string what = c.str("what", "geo,A");
    const bool dirbc       = c.i("dirbc", 0) != 0;
    std::vector<int> tlist = c.iv("tlist");
    if (tlist.empty())
        tlist.push_back(c.i("threads", 1));
    Problem p      = Problem::fromCase(c);
    PolarGrid grid = gridFromCase(c);
    const int N    = grid.numberOfNodes();

    if (has(what, "geo"))
        dumpGeo(o, pre, grid, p, dirbc);

    for (size_t ti = 0; ti < tlist.size(); ti++)
        runThreaded(c, o, p, grid, what, pre, dirbc, N, tlist[ti], ti == 0);
    o.scalar(pre + "done", 1.0);
}

static void runThreaded(const Case& c, Out& o, const Problem& p, const PolarGrid& grid, const std::string& what,
                        const std::string& pre, const bool dirbc, const int N, const int threads, const bool first)
{
    // operators built and applied with `threads` OpenMP threads carry the suffix _T<threads> (none for 1 thread)
    const std::string TS = threads > 1 ? "_T" + std::to_string(threads) : "";
    omp_set_num_threads(threads);

    // ---------------- C03: all cache combinations on the finest level
    if (has(what, "A")) {
        for (int cc = 0; cc < 2; cc++)
            for (int cg = 0; cg < 2; cg++) {
                Hierarchy H(grid, p, cc, cg, 1);
                residualSet(o, pre, H[0], p, dirbc, threads, false, TS);
            }
    }
    if (has(what, "A11")) {
        Hierarchy H(grid, p, true, true, 1);
        residualSet(o, pre, H[0], p, dirbc, threads, false, TS);
    }
    // ---------------- C03: every level of the coarsening chain, caches built as setup() builds them
    if (has(what, "chain") && first) {
        int maxLevels = c.i("levels", 6);
        int nl        = 1;
        {
            PolarGrid g = grid;
            // the same admissibility rule as GMGPolar::chooseNumberOfLevels (coarse grid >= 5 x 4)
            while (nl < maxLevels && (g.nr() + 1) % 2 == 0 && (g.nr() + 1) / 2 >= 5 && g.ntheta() % 4 == 0 &&
                   g.ntheta() / 2 >= 4) {
                g = coarseningGrid(g);
                nl++;
            }
        }
        o.scalar(pre + "chain_levels", nl);
        for (int cc = 0; cc < 2; cc++)
            for (int cg = 0; cg < 2; cg++) {
                Hierarchy H(grid, p, cc, cg, nl);
                for (int d = 1; d < nl; d++) {
                    std::string lp = pre + "L" + std::to_string(d) + "/";
                    const PolarGrid& g = H[d].grid();
                    if (cc == 1 && cg == 1)
                        dumpGeo(o, lp, g, p, dirbc);
                    residualSet(o, lp, H[d], p, dirbc, threads, false);
                    // cache contents vs a fresh evaluation on the coarse grid
                    LevelCache fresh(g, *p.coef, *p.geo, cc, cg);
                    const LevelCache& lc = H[d].levelCache();
                    std::string tag      = std::to_string(cc) + std::to_string(cg);
                    double u             = 0;
                    u = std::max(u, maxUlp(lc.sin_theta(), fresh.sin_theta(), g.ntheta()));
                    u = std::max(u, maxUlp(lc.cos_theta(), fresh.cos_theta(), g.ntheta()));
                    if ((int)lc.sin_theta().size() != g.ntheta() || (int)lc.cos_theta().size() != g.ntheta())
                        u = 1e300;
                    if (lc.coeff_alpha().size() != fresh.coeff_alpha().size() ||
                        lc.coeff_beta().size() != fresh.coeff_beta().size())
                        u = 1e300;
                    else {
                        u = std::max(u, maxUlp(lc.coeff_alpha(), fresh.coeff_alpha(), (int)fresh.coeff_alpha().size()));
                        u = std::max(u, maxUlp(lc.coeff_beta(), fresh.coeff_beta(), (int)fresh.coeff_beta().size()));
                    }
                    if (cg) {
                        int n = g.numberOfNodes();
                        if (lc.arr().size() != n || lc.att().size() != n || lc.art().size() != n ||
                            lc.detDF().size() != n)
                            u = 1e300;
                        else {
                            u = std::max(u, maxUlp(lc.arr(), fresh.arr(), n));
                            u = std::max(u, maxUlp(lc.att(), fresh.att(), n));
                            // art may cancel to (almost) zero: judge it relative to arr/att at the node
                            for (int k = 0; k < n; k++) {
                                double sc = std::max(std::fabs(fresh.arr()[k]), std::fabs(fresh.att()[k]));
                                u = std::max(u, std::fabs(lc.art()[k] - fresh.art()[k]) / (sc * 2.220446049250313e-16));
                            }
                            u = std::max(u, maxUlp(lc.detDF(), fresh.detDF(), n));
                        }
                    }
                    o.scalar(lp + "cache_ulp" + tag, u);
                    o.scalar(lp + "cache_flags_ok" + tag,
                             (lc.cacheDensityProfileCoefficients() == (bool)cc && lc.cacheDomainGeometry() == (bool)cg)
                                 ? 1.0
                                 : 0.0);
                }
            }
    }
    // ---------------- C04: direct solvers
    if (has(what, "X")) {
        Hierarchy H(grid, p, true, true, 1);
        const Level& L = H[0];
        for (int give = 0; give < 2; give++) {
            std::string nm = pre + (give ? "X_give" : "X_take") + TS;
            std::unique_ptr<DirectSolver> ds;
            const SparseMatrixCSR<double>* M = nullptr;
            if (give) {
                auto* d = new DirectSolverGiveCustomLU(L.grid(), L.levelCache(), *p.geo, *p.coef, dirbc, threads);
                ds.reset(d);
                M = &d->solver_matrix_;
            }
            else {
                auto* d = new DirectSolverTakeCustomLU(L.grid(), L.levelCache(), *p.geo, *p.coef, dirbc, threads);
                ds.reset(d);
                M = &d->solver_matrix_;
            }
            Trip T;
            for (int r = 0; r < M->rows(); r++)
                for (int k = 0; k < M->row_nz_size(r); k++)
                    T.add(r, M->row_nz_index(r, k), M->row_nz_entry(r, k));
            T.write(o, nm + "_csr", M->rows(), M->columns());
            std::vector<double> X((size_t)N * N);
            Vector<double> b(N);
            for (int j = 0; j < N; j++) {
                unit(b, j);
                ds->solveInPlace(b);
                for (int i = 0; i < N; i++)
                    X[(size_t)i * N + j] = b[i];
            }
            o.mat(nm, N, N, X.data());
            // homogeneity: uniformly tiny / huge right-hand sides s*e_j must give s*x_j (no absolute thresholds in the solve)
            {
                static const double scales[] = {1e-20, 1e-150, 1e150, 1e-300};
                std::vector<double> hom(4, 0.0);
                for (int si = 0; si < 4; si++) {
                    const double sc = scales[si];
                    for (int j = 0; j < N; j++) {
                        zero(b);
                        b[j] = sc;
                        ds->solveInPlace(b);
                        double colmax = 0, dev = 0;
                        for (int i = 0; i < N; i++)
                            colmax = std::max(colmax, std::fabs(X[(size_t)i * N + j]));
                        for (int i = 0; i < N; i++) {
                            double want = sc * X[(size_t)i * N + j];
                            double d    = std::fabs(b[i] - want);
                            if (!std::isfinite(b[i]))
                                d = 1e300;
                            dev = std::max(dev, d / (sc * colmax + 1e-320));
                        }
                        hom[si] = std::max(hom[si], dev);
                    }
                }
                o.vec(nm + "_hom", hom);
            }
            // wide dynamic range right-hand sides
            std::vector<double> W((size_t)6 * N), WX((size_t)6 * N);
            static const double mags[] = {1e150, 1e-150, 1.0, 1e100, 1e-100, 3.0};
            for (int v = 0; v < 6; v++) {
                for (int k = 0; k < N; k++) {
                    double m = (v < 3) ? mags[(k + v) % 6] : ((k % (v + 1)) == 0 ? 1e150 : 1e-150);
                    b[k]     = ((k * 7 + v) % 3 == 0 ? -1.0 : 1.0) * m * (1.0 + 0.125 * (k % 5));
                    W[(size_t)v * N + k] = b[k];
                }
                ds->solveInPlace(b);
                for (int k = 0; k < N; k++)
                    WX[(size_t)v * N + k] = b[k];
            }
            o.mat(nm + "_wide_rhs", 6, N, W.data());
            o.mat(nm + "_wide_sol", 6, N, WX.data());
        }
    }
    // ---------------- C05 / C06: smoothers
    if (has(what, "S")) {
        for (int cc = 0; cc < 2; cc++)
            for (int cg = 0; cg < 2; cg++) {
                if (!(cc && cg) && !has(what, "Scache"))
                    continue;
                Hierarchy H(grid, p, cc, cg, 1);
                const Level& L  = H[0];
                std::string tag = std::to_string(cc) + std::to_string(cg) + TS;
                {
                    SmootherGive S(L.grid(), L.levelCache(), *p.geo, *p.coef, dirbc, threads);
                    dumpSmootherLines(o, pre + "Asc_give" + tag, S, L.grid(), dirbc);
                    if (!has(what, "linesonly"))
                    extractSB<SmootherGive>(
                        o, pre + "Sm_give" + tag,
                        [&](Vector<double>& x, Vector<double>& f, Vector<double>& t) {
                            S.smoothing(x, f, t);
                        },
                        N);
                }
                if (cc && cg) {
                    SmootherTake S(L.grid(), L.levelCache(), *p.geo, *p.coef, dirbc, threads);
                    dumpSmootherLines(o, pre + "Asc_take" + tag, S, L.grid(), dirbc);
                    if (!has(what, "linesonly"))
                    extractSB<SmootherTake>(
                        o, pre + "Sm_take" + tag,
                        [&](Vector<double>& x, Vector<double>& f, Vector<double>& t) {
                            S.smoothing(x, f, t);
                        },
                        N);
                }
            }
    }
    // ---------------- C07: extrapolated smoothers
    if (has(what, "ES")) {
        Hierarchy H(grid, p, true, true, 1);
        const Level& L = H[0];
        uint64_t seed  = (uint64_t)c.i("seed", 0);
        {
            ExtrapolatedSmootherGive S(L.grid(), L.levelCache(), *p.geo, *p.coef, dirbc, threads);
            auto ap = [&](Vector<double>& x, Vector<double>& f, Vector<double>& t) {
                S.extrapolatedSmoothing(x, f, t);
            };
            extractSB<ExtrapolatedSmootherGive>(o, pre + "Es_give" + TS, ap, N);
            coarseBitwise(o, pre + "Es_give" + TS, ap, L.grid(), seed);
        }
        {
            ExtrapolatedSmootherTake S(L.grid(), L.levelCache(), *p.geo, *p.coef, dirbc, threads);
            auto ap = [&](Vector<double>& x, Vector<double>& f, Vector<double>& t) {
                S.extrapolatedSmoothing(x, f, t);
            };
            extractSB<ExtrapolatedSmootherTake>(o, pre + "Es_take" + TS, ap, N);
            coarseBitwise(o, pre + "Es_take" + TS, ap, L.grid(), seed);
        }
        // the give strategy with the other three cache combinations (coefficients / geometry recomputed inside the sweep: separate
        // branches of the same code)
        for (int cc = 0; cc < 2; cc++)
            for (int cg = 0; cg < 2; cg++) {
                if (cc == 1 && cg == 1)
                    continue;
                Hierarchy Hu(grid, p, cc, cg, 1);
                const Level& Lu = Hu[0];
                ExtrapolatedSmootherGive S(Lu.grid(), Lu.levelCache(), *p.geo, *p.coef, dirbc, threads);
                auto ap = [&](Vector<double>& x, Vector<double>& f, Vector<double>& t) {
                    S.extrapolatedSmoothing(x, f, t);
                };
                const std::string nm = pre + "Es_give" + std::to_string(cc) + std::to_string(cg) + TS;
                extractSB<ExtrapolatedSmootherGive>(o, nm, ap, N);
                coarseBitwise(o, nm, ap, Lu.grid(), seed);
            }
    }
    // ---------------- C08 / C09: grid transfer on the pair (level 0, level 1)
    if (has(what, "T") && first) {
        std::vector<std::optional<double>> cs;
        if (c.has("csplit"))
            cs.push_back(c.d("csplit"));
        Hierarchy H(grid, p, true, true, 2, ExtrapolationType::NONE, true, cs.empty() ? nullptr : &cs);
        const Level& F  = H[0];
        const Level& Cc = H[1];
        const int Nf = F.grid().numberOfNodes(), Nc = Cc.grid().numberOfNodes();
        dumpGeo(o, pre + "C/", Cc.grid(), p, dirbc);
        std::vector<int> tpl = {threads, threads};
        Interpolation I(tpl, dirbc);
        extractOp(o, pre + "P", [&](Vector<double>& y, const Vector<double>& x) { I.applyProlongation(Cc, F, y, x); }, Nc, Nf);
        extractOp(o, pre + "P0", [&](Vector<double>& y, const Vector<double>& x) { I.applyProlongation0(Cc, F, y, x); }, Nc, Nf);
        extractOp(o, pre + "Pex", [&](Vector<double>& y, const Vector<double>& x) { I.applyExtrapolatedProlongation(Cc, F, y, x); }, Nc, Nf);
        extractOp(o, pre + "Pex0", [&](Vector<double>& y, const Vector<double>& x) { I.applyExtrapolatedProlongation0(Cc, F, y, x); }, Nc, Nf);
        extractOp(o, pre + "R", [&](Vector<double>& y, const Vector<double>& x) { I.applyRestriction(F, Cc, y, x); }, Nf, Nc);
        extractOp(o, pre + "R0", [&](Vector<double>& y, const Vector<double>& x) { I.applyRestriction0(F, Cc, y, x); }, Nf, Nc);
        extractOp(o, pre + "Rex", [&](Vector<double>& y, const Vector<double>& x) { I.applyExtrapolatedRestriction(F, Cc, y, x); }, Nf, Nc);
        extractOp(o, pre + "Rex0", [&](Vector<double>& y, const Vector<double>& x) { I.applyExtrapolatedRestriction0(F, Cc, y, x); }, Nf, Nc);
        extractOp(o, pre + "Jinj", [&](Vector<double>& y, const Vector<double>& x) { I.applyInjection(F, Cc, y, x); }, Nf, Nc);
        extractOp(o, pre + "Ffmg", [&](Vector<double>& y, const Vector<double>& x) { I.applyFMGInterpolation(Cc, F, y, x); }, Nc, Nf);
    }
}

int main(int argc, char** argv)
{
    if (argc < 2) {
        std::fprintf(stderr, "usage: opalg <outfile> < cases\n");
        return 2;
    }
    Out o(argv[1]);
    std::string line;
    int n = 0;
    while (std::getline(std::cin, line)) {
        if (line.empty() || line[0] == '#')
            continue;
        Case c = Case::parse(line);
        try {
            runCase(c, o);
        }
        catch (const std::exception& e) {
            o.text(c.str("id", "case") + "/exception", e.what());
        }
        o.flush();
        n++;
    }
    std::fprintf(stderr, "opalg: %d cases\n", n);
    return 0;
}
