// Shared helpers for the verification harness (compiled with -fno-access-control; never part of the repository build).
#pragma once

#include <cmath>
#include <cstdint>
#include <cstdio>
#include <cstring>
#include <iostream>
#include <map>
#include <memory>
#include <sstream>
#include <string>
#include <vector>

#include "GMGPolar/gmgpolar.h"
#include "Residual/ResidualGive/residualGive.h"
#include "Residual/ResidualTake/residualTake.h"
#include "DirectSolver/DirectSolverGiveCustomLU/directSolverGiveCustomLU.h"
#include "DirectSolver/DirectSolverTakeCustomLU/directSolverTakeCustomLU.h"
#include "Smoother/SmootherGive/smootherGive.h"
#include "Smoother/SmootherTake/smootherTake.h"
#include "ExtrapolatedSmoother/ExtrapolatedSmootherGive/extrapolatedSmootherGive.h"
#include "ExtrapolatedSmoother/ExtrapolatedSmootherTake/extrapolatedSmootherTake.h"

namespace vh
{

// ------------------------------------------------------------------------------------------
// case description: one line of key=value tokens
// ------------------------------------------------------------------------------------------
struct Case {
    std::map<std::string, std::string> kv;

    static Case parse(const std::string& line)
    {
        Case c;
        std::istringstream is(line);
        std::string tok;
        while (is >> tok) {
            auto p = tok.find('=');
            if (p == std::string::npos)
                continue;
            c.kv[tok.substr(0, p)] = tok.substr(p + 1);
        }
        return c;
    }
    bool has(const std::string& k) const
    {
        return kv.count(k) > 0;
    }
    std::string str(const std::string& k, const std::string& d = "") const
    {
        auto it = kv.find(k);
        return it == kv.end() ? d : it->second;
    }
    int i(const std::string& k, int d = 0) const
    {
        auto it = kv.find(k);
        return it == kv.end() ? d : std::stoi(it->second);
    }
    double d(const std::string& k, double dflt = 0.0) const
    {
        auto it = kv.find(k);
        return it == kv.end() ? dflt : parseDouble(it->second);
    }
    static double parseDouble(const std::string& s)
    {
        // hexfloat ("0x1.8p+1") and decimal are both accepted by strtod
        return std::strtod(s.c_str(), nullptr);
    }
    std::vector<double> dv(const std::string& k) const
    {
        std::vector<double> out;
        auto it = kv.find(k);
        if (it == kv.end())
            return out;
        std::istringstream is(it->second);
        std::string t;
        while (std::getline(is, t, ','))
            if (!t.empty())
                out.push_back(parseDouble(t));
        return out;
    }
    std::vector<int> iv(const std::string& k) const
    {
        std::vector<int> out;
        auto it = kv.find(k);
        if (it == kv.end())
            return out;
        std::istringstream is(it->second);
        std::string t;
        while (std::getline(is, t, ','))
            if (!t.empty())
                out.push_back(std::stoi(t));
        return out;
    }
};

// ------------------------------------------------------------------------------------------
// binary record stream:  u32 namelen | name | u32 rows | u32 cols | rows*cols doubles (row-major)
// ------------------------------------------------------------------------------------------
struct Out {
    FILE* f = nullptr;
    explicit Out(const std::string& path)
    {
        f = std::fopen(path.c_str(), "wb");
        if (!f) {
            std::perror("open output");
            std::exit(3);
        }
    }
    ~Out()
    {
        if (f)
            std::fclose(f);
    }
    void mat(const std::string& name, uint32_t rows, uint32_t cols, const double* data)
    {
        uint32_t n = (uint32_t)name.size();
        std::fwrite(&n, 4, 1, f);
        std::fwrite(name.data(), 1, n, f);
        std::fwrite(&rows, 4, 1, f);
        std::fwrite(&cols, 4, 1, f);
        if ((size_t)rows * cols)
            std::fwrite(data, 8, (size_t)rows * cols, f);
    }
    void vec(const std::string& name, const std::vector<double>& v)
    {
        mat(name, 1, (uint32_t)v.size(), v.data());
    }
    void vec(const std::string& name, const Vector<double>& v)
    {
        mat(name, 1, (uint32_t)v.size(), v.begin());
    }
    void scalar(const std::string& name, double x)
    {
        mat(name, 1, 1, &x);
    }
    void text(const std::string& name, const std::string& s)
    {
        // text is carried as a row of bytes widened to doubles (tiny strings only)
        std::vector<double> v(s.begin(), s.end());
        mat("txt:" + name, 1, (uint32_t)v.size(), v.data());
    }
    void flush()
    {
        std::fflush(f);
    }
};

// ------------------------------------------------------------------------------------------
// problem data, selected through the repository's own selection table
// ------------------------------------------------------------------------------------------
// Argument monitors: every input function the library receives checks, on EVERY call, that its arguments are self-consistent -
// sin_theta / cos_theta are the sine and cosine of theta, theta lies in [0, 2 pi], r lies in [0, Rmax].  The shipped classes use
// either theta or the passed sine/cosine, so a call with the cached trigonometric values of another node is invisible with them.
// A violated contract ends the probe (reported as a crash of that case with the message below).
inline void inputContract(const char* fn, double r, double theta, double s, double c, double Rmax)
{
    const bool ok = std::fabs(s - std::sin(theta)) <= 1e-12 && std::fabs(c - std::cos(theta)) <= 1e-12 && theta >= -1e-12 &&
                    theta <= 2 * M_PI + 1e-12 && r >= 0.0 && r <= Rmax * (1 + 1e-12);
    if (!ok) {
        fprintf(stderr, "harness: Assertion INPUT-CONTRACT failed: %s called with r=%.17g theta=%.17g sin_theta=%.17g cos_theta=%.17g (Rmax %.17g)\n",
                fn, r, theta, s, c, Rmax);
        fflush(stderr);
        abort();
    }
}
struct MonitoredGeometry : public DomainGeometry {
    std::unique_ptr<const DomainGeometry> inner;
    double Rmax;
    MonitoredGeometry(std::unique_ptr<const DomainGeometry> g, double rmax)
        : inner(std::move(g))
        , Rmax(rmax)
    {
    }
#define VH_FWD(NAME)                                                                                                               \
    double NAME(const double& r, const double& theta, const double& sin_theta, const double& cos_theta) const override            \
    {                                                                                                                              \
        inputContract("DomainGeometry::" #NAME, r, theta, sin_theta, cos_theta, Rmax);                                           \
        return inner->NAME(r, theta, sin_theta, cos_theta);                                                                        \
    }
    VH_FWD(Fx) VH_FWD(Fy) VH_FWD(dFx_dr) VH_FWD(dFy_dr) VH_FWD(dFx_dt) VH_FWD(dFy_dt)
#undef VH_FWD
};
struct MonitoredCoefficients : public DensityProfileCoefficients {
    std::unique_ptr<const DensityProfileCoefficients> inner;
    double Rmax;
    MonitoredCoefficients(std::unique_ptr<const DensityProfileCoefficients> g, double rmax)
        : inner(std::move(g))
        , Rmax(rmax)
    {
    }
    double alpha(const double& r) const override
    {
        inputContract("DensityProfileCoefficients::alpha", r, 0.0, 0.0, 1.0, Rmax);
        return inner->alpha(r);
    }
    double beta(const double& r) const override
    {
        inputContract("DensityProfileCoefficients::beta", r, 0.0, 0.0, 1.0, Rmax);
        return inner->beta(r);
    }
    double getAlphaJump() const override
    {
        return inner->getAlphaJump();
    }
};
struct MonitoredSource : public SourceTerm {
    std::unique_ptr<const SourceTerm> inner;
    double Rmax;
    MonitoredSource(std::unique_ptr<const SourceTerm> g, double rmax)
        : inner(std::move(g))
        , Rmax(rmax)
    {
    }
    double rhs_f(const double& r, const double& theta, const double& sin_theta, const double& cos_theta) const override
    {
        inputContract("SourceTerm::rhs_f", r, theta, sin_theta, cos_theta, Rmax);
        return inner->rhs_f(r, theta, sin_theta, cos_theta);
    }
};
struct MonitoredExact : public ExactSolution {
    std::unique_ptr<const ExactSolution> inner;
    double Rmax;
    MonitoredExact(std::unique_ptr<const ExactSolution> g, double rmax)
        : inner(std::move(g))
        , Rmax(rmax)
    {
    }
    double exact_solution(const double& r, const double& theta, const double& sin_theta, const double& cos_theta) const override
    {
        inputContract("ExactSolution::exact_solution", r, theta, sin_theta, cos_theta, Rmax);
        return inner->exact_solution(r, theta, sin_theta, cos_theta);
    }
};

// Boundary data handed to the library are POISONED outside the place each function is specified for: u_D is the datum on the
// outer boundary (valid for r > 0.75 Rmax here), u_D_Interior the datum on the inner boundary (valid for r < 0.5 Rmax; every inner
// radius used by the checks is <= 0.1).  All shipped boundary classes implement both functions with the same body, so a call of
// the wrong one - or of the right one at the wrong radius - is invisible with the shipped classes and lands on 1e6 here.
struct PoisonedBoundaryConditions : public BoundaryConditions {
    std::unique_ptr<const BoundaryConditions> inner;
    double Rmax;
    bool monitored;
    PoisonedBoundaryConditions(std::unique_ptr<const BoundaryConditions> b, double rmax, bool mon)
        : inner(std::move(b))
        , Rmax(rmax)
        , monitored(mon)
    {
    }
    double u_D(const double& r, const double& theta, const double& sin_theta, const double& cos_theta) const override
    {
        if (monitored)
            inputContract("BoundaryConditions::u_D", r, theta, sin_theta, cos_theta, Rmax);
        return r > 0.75 * Rmax ? inner->u_D(r, theta, sin_theta, cos_theta) : 1e6;
    }
    double u_D_Interior(const double& r, const double& theta, const double& sin_theta, const double& cos_theta) const override
    {
        if (monitored)
            inputContract("BoundaryConditions::u_D_Interior", r, theta, sin_theta, cos_theta, Rmax);
        return r < 0.5 * Rmax ? inner->u_D_Interior(r, theta, sin_theta, cos_theta) : -1e6;
    }
};

struct Problem {
    std::unique_ptr<const DomainGeometry> geo;
    std::unique_ptr<const DensityProfileCoefficients> coef;
    std::unique_ptr<const BoundaryConditions> bc;
    std::unique_ptr<const SourceTerm> src;
    std::unique_ptr<const ExactSolution> exact;

    // geometry: 0 circ 1 shafranov 2 czarny 3 culham ; problem 0 cartR2 1 cartR6 2 polarR6 3 refined ;
    // alpha 0 poisson 1 sonnendrucker 2 zoni 3 zoni-shifted ; beta 0 zero 1 1/alpha
    static Problem select(int geometry, int problem, int alpha, int beta, double Rmax, double kappa_eps,
                          double delta_e, double alpha_jump, bool monitored = true)
    {
        GMGPolar g; // default-constructs with the documented defaults and runs selectTestCase() once
        g.geometry_   = static_cast<GeometryType>(geometry);
        g.problem_    = static_cast<ProblemType>(problem);
        g.alpha_      = static_cast<AlphaCoeff>(alpha);
        g.beta_       = static_cast<BetaCoeff>(beta);
        g.Rmax_       = Rmax;
        g.kappa_eps_  = kappa_eps;
        g.delta_e_    = delta_e;
        g.alpha_jump_ = alpha_jump;
        g.selectTestCase();
        Problem p;
        p.geo   = std::move(g.domain_geometry_);
        p.coef  = std::move(g.density_profile_coefficients_);
        p.bc    = std::make_unique<PoisonedBoundaryConditions>(std::move(g.boundary_conditions_), Rmax, monitored);
        p.src   = std::move(g.source_term_);
        p.exact = std::move(g.exact_solution_);
        if (monitored) {
            p.geo  = std::make_unique<MonitoredGeometry>(std::move(p.geo), Rmax);
            p.coef = std::make_unique<MonitoredCoefficients>(std::move(p.coef), Rmax);
            p.src  = std::make_unique<MonitoredSource>(std::move(p.src), Rmax);
            if (p.exact)
                p.exact = std::make_unique<MonitoredExact>(std::move(p.exact), Rmax);
        }
        return p;
    }
    static Problem fromCase(const Case& c)
    {
        return select(c.i("geom", 0), c.i("prob", 0), c.i("alpha", 1), c.i("beta", 0), c.d("Rmax", 1.3),
                      c.d("kappa", 0.3), c.d("delta", 0.2), c.d("ajump", 0.5));
    }
};

inline PolarGrid gridFromCase(const Case& c)
{
    std::vector<double> radii  = c.dv("radii");
    std::vector<double> angles = c.dv("angles");
    if (c.has("split"))
        return PolarGrid(radii, angles, c.d("split"));
    return PolarGrid(radii, angles);
}

// ------------------------------------------------------------------------------------------
// a hierarchy of levels built exactly as GMGPolar::setup() builds it
// ------------------------------------------------------------------------------------------
struct Hierarchy {
    std::vector<std::unique_ptr<Level>> levels;

    // level 0 from a grid; coarser ones by coarseningGrid + LevelCache(previous_level, grid)
    Hierarchy(const PolarGrid& finest, const Problem& p, bool cache_coeff, bool cache_geo, int nlevels,
              ExtrapolationType extr = ExtrapolationType::NONE, bool fmg = true,
              const std::vector<std::optional<double>>* coarse_splits = nullptr)
    {
        auto g0 = std::make_unique<PolarGrid>(finest);
        auto c0 = std::make_unique<LevelCache>(*g0, *p.coef, *p.geo, cache_coeff, cache_geo);
        levels.push_back(std::make_unique<Level>(0, std::move(g0), std::move(c0), extr, fmg));
        for (int d = 1; d < nlevels; d++) {
            const PolarGrid& fine = levels[d - 1]->grid();
            std::unique_ptr<PolarGrid> g;
            if (coarse_splits && (int)coarse_splits->size() >= d && (*coarse_splits)[d - 1].has_value()) {
                PolarGrid tmp = coarseningGrid(fine);
                g = std::make_unique<PolarGrid>(tmp.radii(), tmp.angles(), (*coarse_splits)[d - 1].value());
            }
            else {
                g = std::make_unique<PolarGrid>(coarseningGrid(fine));
            }
            auto cc = std::make_unique<LevelCache>(*levels[d - 1], *g);
            levels.push_back(std::make_unique<Level>(d, std::move(g), std::move(cc), extr, fmg));
        }
    }
    Level& operator[](int i)
    {
        return *levels[i];
    }
};

inline bool canCoarsen(const PolarGrid& g)
{
    return (g.nr() - 1) % 2 == 0 && g.ntheta() % 2 == 0 && (g.nr() + 1) / 2 >= 2 && g.ntheta() / 2 >= 2;
}

// fill a vector with a unit vector
inline void unit(Vector<double>& v, int j)
{
    for (int i = 0; i < v.size(); i++)
        v[i] = 0.0;
    v[j] = 1.0;
}
inline void zero(Vector<double>& v)
{
    for (int i = 0; i < v.size(); i++)
        v[i] = 0.0;
}

// "awkward doubles": deterministic filler values for scratch vectors (seeded, never NaN/Inf)
inline double filler(uint64_t seed, uint64_t k)
{
    uint64_t z = seed * 0x9E3779B97F4A7C15ull + (k + 1) * 0xBF58476D1CE4E5B9ull;
    z ^= z >> 31;
    z *= 0x94D049BB133111EBull;
    z ^= z >> 29;
    static const double alphabet[] = {1.0, -1.0, 3.141592653589793, -7.25, 1e3, -1e3, 0.5, 123456.789, -0.001, 42.0};
    return alphabet[z % 10] * (1.0 + double((z >> 8) % 7));
}
inline void fill(Vector<double>& v, uint64_t seed)
{
    for (int i = 0; i < v.size(); i++)
        v[i] = filler(seed, (uint64_t)i);
}

inline uint64_t hashBytes(const void* p, size_t n, uint64_t h = 1469598103934665603ull)
{
    const unsigned char* b = (const unsigned char*)p;
    for (size_t i = 0; i < n; i++) {
        h ^= b[i];
        h *= 1099511628211ull;
    }
    return h;
}
inline uint64_t hashVec(const Vector<double>& v, uint64_t h = 1469598103934665603ull)
{
    return v.size() ? hashBytes(v.begin(), sizeof(double) * v.size(), h) : h;
}

} // namespace vh
