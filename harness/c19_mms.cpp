// C19: every selectable (geometry, problem, alpha, beta) quintuple, instantiated through the real selectTestCase(),
// is evaluated on a generic lattice of points and compared with high-order numerical differentiation.
//
// usage: c19_mms enumerate <quick|thorough> <part> <nparts>        (STAT / SAMPLE / ROW lines)
//        c19_mms replay   (stdin: "geom=.. prob=.. alpha=.. beta=.. kappa=.. delta=.. Rmax=..")
#include <cstring>
#include <cxxabi.h>
#include <typeinfo>

#include "hcommon.h"
#include "default_factory.h"

using namespace vh;
typedef long double LD;

static std::string demangle(const char* n)
{
    int st  = 0;
    char* d = abi::__cxa_demangle(n, nullptr, nullptr, &st);
    std::string s = (st == 0 && d) ? d : n;
    free(d);
    return s;
}

// 6th-order central first derivative of f at x with step h
template <class F>
static LD d1(F&& f, double x, double h)
{
    LD a = (LD)f(x + h) - (LD)f(x - h);
    LD b = (LD)f(x + 2 * h) - (LD)f(x - 2 * h);
    LD c = (LD)f(x + 3 * h) - (LD)f(x - 3 * h);
    return (45.0L * a - 9.0L * b + c) / (60.0L * (LD)h);
}

struct Geo {
    const DomainGeometry& g;
    double Fx(double r, double t) const
    {
        return g.Fx(r, t, std::sin(t), std::cos(t));
    }
    double Fy(double r, double t) const
    {
        return g.Fy(r, t, std::sin(t), std::cos(t));
    }
    void J(double r, double t, LD& Jrr, LD& Jtr, LD& Jrt, LD& Jtt) const
    {
        double s = std::sin(t), c = std::cos(t);
        Jrr = g.dFx_dr(r, t, s, c);
        Jtr = g.dFy_dr(r, t, s, c);
        Jrt = g.dFx_dt(r, t, s, c);
        Jtt = g.dFy_dt(r, t, s, c);
    }
};

struct Result {
    double jac = 0, jacr = 0, rhs = 0, bnd = 0, gyro = 0;
    std::string jacAt, jacrAt, rhsAt, bndAt;
    long points = 0;
};

// flux components alpha * |det| DF^-1 DF^-T grad u at (r,t); derivatives of u by finite differences
static void flux(const Geo& G, const Problem& p, double r, double t, double hr, double ht, LD& qr, LD& qt)
{
    auto u = [&](double rr, double tt) {
        return p.exact->exact_solution(rr, tt, std::sin(tt), std::cos(tt));
    };
    LD ur = d1([&](double x) { return u(x, t); }, r, hr);
    LD ut = d1([&](double x) { return u(r, x); }, t, ht);
    LD Jrr, Jtr, Jrt, Jtt;
    G.J(r, t, Jrr, Jtr, Jrt, Jtt);
    LD det = Jrr * Jtt - Jrt * Jtr;
    LD ad  = fabsl(det);
    LD a   = p.coef->alpha(r);
    LD grr = (Jtt * Jtt + Jrt * Jrt) / ad, gtt = (Jtr * Jtr + Jrr * Jrr) / ad, grt = -(Jtt * Jtr + Jrt * Jrr) / ad;
    qr = a * (grr * ur + grt * ut);
    qt = a * (grt * ur + gtt * ut);
}

static Result evaluate(const Problem& p, bool culham, double Rmax, int nrad, int nang)
{
    Result R;
    Geo G{*p.geo};
    const double hr = 1e-3 * Rmax, ht = 1e-3;
    for (int a = 0; a < nrad; a++) {
        // generic radii; the first and last ones close to the boundaries
        double r = (a == 0) ? 5e-3 * Rmax : (a == nrad - 1 ? Rmax * 0.97 : Rmax * (0.04 + 0.90 * (a + 0.37) / nrad));
        for (int b = 0; b < nang; b++) {
            double t = 0.1234 + 2.0 * M_PI * (b + 0.31 * ((a % 3) + 1) / 3.0) / nang; // never a multiple of pi/k
            R.points++;
            char at[96];
            snprintf(at, sizeof at, "r=%.6g,theta=%.6g", r, t);
            // (a) Jacobian vs differentiated mapping
            LD Jrr, Jtr, Jrt, Jtt;
            G.J(r, t, Jrr, Jtr, Jrt, Jtt);
            LD nJrr = d1([&](double x) { return G.Fx(x, t); }, r, hr), nJtr = d1([&](double x) { return G.Fy(x, t); }, r, hr);
            LD nJrt = d1([&](double x) { return G.Fx(r, x); }, t, ht), nJtt = d1([&](double x) { return G.Fy(r, x); }, t, ht);
            LD sc   = std::max({fabsl(nJrr), fabsl(nJtr), fabsl(nJrt) / (LD)r, fabsl(nJtt) / (LD)r, (LD)1e-3});
            // theta-derivatives are analytic in every geometry; r-derivatives of the tabulated Culham mapping are only
            // as accurate as its table (judged separately)
            LD djt = std::max(fabsl(Jrt - nJrt) / (LD)r, fabsl(Jtt - nJtt) / (LD)r) / sc;
            LD djr = std::max(fabsl(Jrr - nJrr), fabsl(Jtr - nJtr)) / sc;
            if ((double)djt > R.jac) {
                R.jac   = (double)djt;
                R.jacAt = at;
            }
            if ((double)djr > R.jacr) {
                R.jacr   = (double)djr;
                R.jacrAt = at;
            }
            if (culham)
                continue;
            // (b) source term: a wrong formula gives a discrepancy that does not depend on the step, truncation error
            //     shrinks 64x per halving and round-off grows 4x: take the smallest discrepancy over three steps
            LD best = 1e300L;
            for (double f : {1.0, 0.5, 0.25}) {
                double h1 = hr * f, h2 = ht * f;
                LD dqr = d1(
                    [&](double x) {
                        LD qr, qt;
                        flux(G, p, x, t, h1, h2, qr, qt);
                        return (double)qr;
                    },
                    r, h1);
                LD dqt = d1(
                    [&](double x) {
                        LD qr, qt;
                        flux(G, p, r, x, h1, h2, qr, qt);
                        return (double)qt;
                    },
                    t, h2);
                LD det = Jrr * Jtt - Jrt * Jtr;
                LD u   = p.exact->exact_solution(r, t, std::sin(t), std::cos(t));
                LD ref = -(dqr + dqt) / fabsl(det) + (LD)p.coef->beta(r) * u;
                LD got = p.src->rhs_f(r, t, std::sin(t), std::cos(t));
                LD mag = (fabsl(dqr) + fabsl(dqt)) / fabsl(det) + fabsl((LD)p.coef->beta(r) * u) + 1e-30L;
                best   = std::min(best, fabsl(got - ref) / mag);
            }
            if ((double)best > R.rhs) {
                R.rhs   = (double)best;
                R.rhsAt = at;
            }
            // (d) gyro relation is judged by the caller through alpha*beta
        }
    }
    if (!culham) {
        // (c) boundary data equal the exact solution on the boundaries
        for (int b = 0; b < 4 * nang; b++) {
            double t = 0.0571 + 2.0 * M_PI * b / (4.0 * nang);
            double s = std::sin(t), c = std::cos(t);
            for (double r0 : {1e-5, 1e-2, 0.1}) {
                LD e = p.exact->exact_solution(r0, t, s, c), v = p.bc->u_D_Interior(r0, t, s, c);
                LD d = fabsl(e - v) / std::max(fabsl(e), (LD)1e-12);
                if ((double)d > R.bnd) {
                    R.bnd = (double)d;
                    char at[96];
                    snprintf(at, sizeof at, "interior:r=%.6g,theta=%.6g", r0, t);
                    R.bndAt = at;
                }
            }
            LD e = p.exact->exact_solution(Rmax, t, s, c), v = p.bc->u_D(Rmax, t, s, c);
            LD d = fabsl(e - v) / std::max({fabsl(e), fabsl(v), (LD)1e-12});
            // exact solutions vanish on the outer boundary: compare on the scale of the solution inside
            LD inside = fabsl((LD)p.exact->exact_solution(0.5 * Rmax, t, s, c)) + 1e-12L;
            d         = std::min(d, fabsl(e - v) / inside);
            if ((double)d > R.bnd) {
                R.bnd = (double)d;
                char at[96];
                snprintf(at, sizeof at, "outer:r=%.6g,theta=%.6g", Rmax, t);
                R.bndAt = at;
            }
        }
    }
    return R;
}

static const char* GN[] = {"Circular", "Shafranov", "Czarny", "Culham"};
static const char* PN[] = {"CartesianR2", "CartesianR6", "PolarR6", "Refined"};

static void runOne(int geom, int prob, int alpha, int beta, double Rmax, double kappa, double delta, int nrad, int nang)
{
    double ajump = 0.6 * Rmax;
    Problem p;
    try {
        p = Problem::select(geom, prob, alpha, beta, Rmax, kappa, delta, ajump, false); // formulas are judged here, not the library's calls
    }
    catch (const std::exception& e) {
        printf("SKIP geom=%d prob=%d alpha=%d beta=%d what=%s\n", geom, prob, alpha, beta, e.what());
        return;
    }
    // the harness wraps the boundary data (PoisonedBoundaryConditions); the selection table's choice is the wrapped object
    const BoundaryConditions* rawbc = p.bc.get();
    if (auto* pw = dynamic_cast<const PoisonedBoundaryConditions*>(rawbc))
        rawbc = pw->inner.get();
    std::string src = demangle(typeid(*p.src).name()), ex = demangle(typeid(*p.exact).name()),
                bc = demangle(typeid(*rawbc).name()), cf = demangle(typeid(*p.coef).name()),
                ge = demangle(typeid(*p.geo).name());
    Result R = evaluate(p, geom == 3, Rmax, nrad, nang);
    // gyro relation
    double gy = 0;
    bool isGyro = cf.find("Gyro") != std::string::npos;
    for (int a = 0; a < 40; a++) {
        double r = Rmax * (a + 0.5) / 40.0;
        double al = p.coef->alpha(r), be = p.coef->beta(r);
        double d  = isGyro ? std::fabs(al * be - 1.0) : std::fabs(be);
        gy        = std::max(gy, d);
        if (!(al > 0))
            gy = 1e300;
    }
    // purity: the input functions are functions - the value at a point does not depend on which points were evaluated before
    // (a memo keyed on too little, a lazily filled table).  40 points forwards, backwards, and with a foreign point in between.
    std::string impure = "-";
    {
        auto all = [&](double r, double t, std::vector<double>& v) {
            const double sn = std::sin(t), cs = std::cos(t);
            v.push_back(p.geo->Fx(r, t, sn, cs));
            v.push_back(p.geo->Fy(r, t, sn, cs));
            v.push_back(p.geo->dFx_dr(r, t, sn, cs));
            v.push_back(p.geo->dFy_dr(r, t, sn, cs));
            v.push_back(p.geo->dFx_dt(r, t, sn, cs));
            v.push_back(p.geo->dFy_dt(r, t, sn, cs));
            v.push_back(p.coef->alpha(r));
            v.push_back(p.coef->beta(r));
            v.push_back(p.src->rhs_f(r, t, sn, cs));
            v.push_back(p.exact ? p.exact->exact_solution(r, t, sn, cs) : 0.0);
            v.push_back(p.bc->u_D(Rmax, t, sn, cs));
            v.push_back(p.bc->u_D_Interior(1e-2, t, sn, cs));
        };
        const char* names[12] = {"Fx", "Fy", "dFx_dr", "dFy_dr", "dFx_dt", "dFy_dt", "alpha", "beta", "rhs_f", "exact_solution", "u_D",
                                 "u_D_Interior"};
        std::vector<std::pair<double, double>> pts;
        for (int i = 0; i < 40; i++)
            pts.push_back({Rmax * (0.03 + 0.94 * ((i * 7) % 40) / 40.0), 0.05 + 6.1 * ((i * 11) % 40) / 40.0});
        std::vector<std::vector<double>> fwd(pts.size()), bwd(pts.size()), mix(pts.size());
        for (size_t i = 0; i < pts.size(); i++)
            all(pts[i].first, pts[i].second, fwd[i]);
        for (size_t i = pts.size(); i-- > 0;)
            all(pts[i].first, pts[i].second, bwd[i]);
        for (size_t i = 0; i < pts.size(); i++) {
            std::vector<double> dummy;
            all(pts[(i + 13) % pts.size()].second * 0.1 + 0.01, pts[(i + 5) % pts.size()].second, dummy);
            all(pts[i].first, pts[i].second, mix[i]);
        }
        for (size_t i = 0; i < pts.size() && impure == "-"; i++)
            for (int k = 0; k < 12; k++)
                if (std::memcmp(&fwd[i][k], &bwd[i][k], 8) != 0 || std::memcmp(&fwd[i][k], &mix[i][k], 8) != 0) {
                    impure = names[k];
                    break;
                }
    }
    // default-constructed twins: at the documented default parameters every shipped class, default-constructed, is the object the
    // selection table builds (default member initialisers are part of what ships)
    std::string defdiff = "n/a";
    {
        const double kdef = (geom == 1 || geom == 2) ? 0.3 : 0.0, ddef = geom == 1 ? 0.2 : (geom == 2 ? 1.4 : 0.0);
        if (Rmax == 1.3 && ((geom != 1 && geom != 2) || (kappa == kdef && delta == ddef))) {
            defdiff = "-";
            auto dcoef = makeDefaultDensityProfileCoefficients(cf);
            if (dcoef) {
                Problem q;
                try {
                    q = Problem::select(geom, prob, alpha, beta, 1.3, kdef, ddef, dcoef->getAlphaJump(), false);
                }
                catch (...) {
                }
                auto dsrc = makeDefaultSourceTerm(src);
                auto dex  = makeDefaultExactSolution(ex);
                auto dbc  = makeDefaultBoundaryConditions(bc);
                auto dgeo = makeDefaultDomainGeometry(ge);
                for (int i = 0; i < 60 && defdiff == "-" && q.geo; i++) {
                    const double r = 1.3 * (0.02 + 0.96 * ((i * 7) % 60) / 60.0), t = 0.03 + 6.2 * ((i * 11) % 60) / 60.0;
                    const double sn = std::sin(t), cs = std::cos(t);
                    auto ne = [](double a, double b) { return std::memcmp(&a, &b, 8) != 0 && !(a != a && b != b); };
                    if (dsrc && ne(dsrc->rhs_f(r, t, sn, cs), q.src->rhs_f(r, t, sn, cs)))
                        defdiff = src + ":rhs_f";
                    else if (dex && q.exact && ne(dex->exact_solution(r, t, sn, cs), q.exact->exact_solution(r, t, sn, cs)))
                        defdiff = ex + ":exact_solution";
                    else if (dbc && ne(dbc->u_D(1.3, t, sn, cs), q.bc->u_D(1.3, t, sn, cs)))
                        defdiff = bc + ":u_D";
                    else if (dbc && ne(dbc->u_D_Interior(1e-2, t, sn, cs), q.bc->u_D_Interior(1e-2, t, sn, cs)))
                        defdiff = bc + ":u_D_Interior";
                    else if (ne(dcoef->alpha(r), q.coef->alpha(r)) || ne(dcoef->beta(r), q.coef->beta(r)))
                        defdiff = cf + ":alpha/beta";
                    else if (dgeo && (ne(dgeo->Fx(r, t, sn, cs), q.geo->Fx(r, t, sn, cs)) || ne(dgeo->Fy(r, t, sn, cs), q.geo->Fy(r, t, sn, cs)) ||
                                      ne(dgeo->dFx_dr(r, t, sn, cs), q.geo->dFx_dr(r, t, sn, cs)) || ne(dgeo->dFy_dr(r, t, sn, cs), q.geo->dFy_dr(r, t, sn, cs)) ||
                                      ne(dgeo->dFx_dt(r, t, sn, cs), q.geo->dFx_dt(r, t, sn, cs)) || ne(dgeo->dFy_dt(r, t, sn, cs), q.geo->dFy_dt(r, t, sn, cs))))
                        defdiff = ge + ":mapping/Jacobian";
                }
            }
        }
    }
    printf("ROW defdiff=%s impure=%s geom=%d prob=%d alpha=%d beta=%d Rmax=%.17g kappa=%.17g delta=%.17g src=%s exact=%s bc=%s coef=%s geo=%s "
           "points=%ld jac=%.6g jacAt=%s jacr=%.6g jacrAt=%s rhs=%.6g rhsAt=%s bnd=%.6g bndAt=%s gyro=%.6g isgyro=%d\n",
           defdiff.c_str(), impure.c_str(), geom, prob, alpha, beta, Rmax, kappa, delta, src.c_str(), ex.c_str(), bc.c_str(), cf.c_str(), ge.c_str(), R.points,
           R.jac, R.jacAt.empty() ? "-" : R.jacAt.c_str(), R.jacr, R.jacrAt.empty() ? "-" : R.jacrAt.c_str(), R.rhs, R.rhsAt.empty() ? "-" : R.rhsAt.c_str(), R.bnd,
           R.bndAt.empty() ? "-" : R.bndAt.c_str(), gy, (int)isGyro);
    (void)GN;
    (void)PN;
    (void)ex;
    (void)bc;
}

int main(int argc, char** argv)
{
    std::string mode = argc > 1 ? argv[1] : "enumerate";
    if (mode == "replay") {
        std::string line;
        while (std::getline(std::cin, line)) {
            Case c = Case::parse(line);
            runOne(c.i("geom"), c.i("prob"), c.i("alpha"), c.i("beta"), c.d("Rmax", 1.3), c.d("kappa", 0.3), c.d("delta", 0.2),
                   c.i("nrad", 12), c.i("nang", 16));
        }
        return 0;
    }
    bool thorough = argc > 2 && std::string(argv[2]) == "thorough";
    int part = argc > 3 ? atoi(argv[3]) : 0, nparts = argc > 4 ? atoi(argv[4]) : 1;
    int nrad = thorough ? 24 : 12, nang = thorough ? 32 : 16;
    long counter = 0;
    std::vector<double> rmaxs = thorough ? std::vector<double>{1.3, 1.0} : std::vector<double>{1.3};
    for (double Rmax : rmaxs)
        for (int geom = 0; geom < 4; geom++) {
            std::vector<std::pair<double, double>> params;
            if (geom == 1)
                params = {{0.3, 0.2}, {0.1, 0.05}};
            else if (geom == 2)
                params = {{0.3, 1.4}, {0.1, 1.0}};
            else
                params = {{0.0, 0.0}};
            if (!thorough)
                params.resize(1);
            if (geom == 3 && Rmax != 1.3)
                continue;
            for (auto pr : params)
                for (int prob = 0; prob < 4; prob++)
                    for (int alpha = 0; alpha < 4; alpha++)
                        for (int beta = 0; beta < 2; beta++)
                            if ((counter++ % nparts) == part)
                                runOne(geom, prob, alpha, beta, Rmax, pr.first, pr.second, nrad, nang);
        }
    return 0;
}
