// C18: enumeration of grid-generation parameters and grid-file faults.  Every combination runs in a forked child so
// that a sanitizer report, a failed assertion or a crash is attributed to exactly that combination.
//
// usage: c18_grid enumerate <quick|thorough> <part> <nparts> <tmpdir>
//        c18_grid replay <tmpdir>   (stdin: spec lines)
#include <fcntl.h>
#include <sys/wait.h>
#include <unistd.h>

#include "gmgcfg.h"

using namespace vh;

struct Spec {
    std::string kind; // ctor | levels | roundtrip | fault
    double R0 = 1e-5, Rmax = 1.3, ref = 0.0;
    int nr_exp = 4, ntheta_exp = -1, aniso = 0, div2 = 0, maxlev = -1;
    std::string fault;
    std::string via = "file"; // fault cases: through the file constructor or the array constructor
    int pos = 0;
    std::string str() const
    {
        std::ostringstream os;
        os.precision(17);
        os << "kind=" << kind << " R0=" << R0 << " Rmax=" << Rmax << " ref=" << ref << " nr_exp=" << nr_exp << " ntheta_exp=" << ntheta_exp
           << " aniso=" << aniso << " div2=" << div2 << " maxlev=" << maxlev << " fault=" << (fault.empty() ? "-" : fault) << " pos=" << pos << " via=" << via;
        return os.str();
    }
};

static std::string g_tmp = "/tmp";

static std::string validGrid(const PolarGrid& g, double R0, double Rmax, bool generated)
{
    const auto& r = g.radii();
    const auto& a = g.angles();
    const int nr = g.nr(), nt = g.ntheta();
    if ((int)r.size() != nr || (int)a.size() != nt + 1)
        return "sizes inconsistent";
    for (int i = 0; i + 1 < nr; i++)
        if (!(r[i] < r[i + 1]))
            return "radii not strictly increasing at " + std::to_string(i);
    for (int i = 0; i < nr; i++)
        if (!std::isfinite(r[i]))
            return "non-finite radius";
    // every grid, generated or given: positive radii, angles from 0 to 2 pi strictly increasing, an even number of them, each
    // with its antipode half the array further on (the across-origin stencil and wrap(i + ntheta/2) rely on exactly this)
    if (!(r[0] > 0))
        return "non-positive radius";
    for (int j = 0; j <= nt; j++)
        if (!std::isfinite(a[j]))
            return "non-finite angle";
    for (int j = 0; j < nt; j++)
        if (!(a[j] < a[j + 1]))
            return "angles not strictly increasing at " + std::to_string(j);
    if (std::fabs(a[0]) > 1e-10 || std::fabs(a[nt] - 2 * M_PI) > 1e-10)
        return "angles do not run from 0 to 2 pi";
    if (nt % 2)
        return "odd number of angles: nodes have no antipode";
    for (int j = 0; j < nt / 2; j++)
        if (std::fabs(a[j + nt / 2] - a[j] - M_PI) > 1e-10)
            return "angle " + std::to_string(j) + " has no antipode at index + ntheta/2";
    if (generated) {
        if (r.front() != R0)
            return "first radius is not exactly R0";
        if (r.back() != Rmax)
            return "last radius is not exactly Rmax";
        // uniform antipodal angles
        for (int j = 0; j <= nt; j++)
            if (std::fabs(a[j] - j * (2 * M_PI / nt)) > 4e-15 * 2 * M_PI)
                return "angles not uniform at " + std::to_string(j);
        if (nt % 2)
            return "odd number of angles";
        for (int j = 0; j < nt / 2; j++)
            if (std::fabs(a[j + nt / 2] - a[j] - M_PI) > 1e-14)
                return "angles not antipodally paired";
        // odd-index nodes are midpoints of their neighbours
        if (nr % 2 == 0)
            return "even number of radii: the finest grid cannot be coarsened";
        for (int i = 1; i + 1 < nr; i += 2)
            if (std::fabs(r[i] - 0.5 * (r[i - 1] + r[i + 1])) > 4 * 2.220446049250313e-16 * Rmax)
                return "fine radius " + std::to_string(i) + " is not the midpoint of its neighbours";
    }
    return "";
}

static int expectedLevels(int nr, int nt, int maxlev)
{
    int rl = 1, n = nr;
    while ((n + 1) / 2 >= 5 && (n + 1) % 2 == 0) {
        n = (n + 1) / 2;
        rl++;
    }
    int al = 1, t = nt;
    while (t / 2 >= 4 && t % 2 == 0 && (t / 2) % 2 == 0) {
        t /= 2;
        al++;
    }
    int l = std::min(rl, al);
    if (maxlev > 0)
        l = std::min(l, maxlev);
    return l;
}

// returns "OK <info>", "REJECTED <what>" or "BAD <what>"
static std::string runSpec(const Spec& s)
{
    try {
        if (s.kind == "ctor") {
            PolarGrid g(s.R0, s.Rmax, s.nr_exp, s.ntheta_exp, s.ref, s.aniso, s.div2);
            std::string e = validGrid(g, s.R0, s.Rmax, true);
            if (!e.empty())
                return "BAD invalid-grid: " + e;
            // nesting: one refinement less is the every-second-node subgrid
            if (s.div2 > 0) {
                PolarGrid c(s.R0, s.Rmax, s.nr_exp, s.ntheta_exp, s.ref, s.aniso, s.div2 - 1);
                if (2 * (c.nr() - 1) + 1 != g.nr() || 2 * c.ntheta() != g.ntheta())
                    return "BAD nesting: sizes " + std::to_string(c.nr()) + "x" + std::to_string(c.ntheta()) + " vs " +
                           std::to_string(g.nr()) + "x" + std::to_string(g.ntheta());
                for (int i = 0; i < c.nr(); i++)
                    if (std::fabs(c.radius(i) - g.radius(2 * i)) > 4 * 2.220446049250313e-16 * s.Rmax)
                        return "BAD nesting: radius " + std::to_string(i);
                for (int j = 0; j <= c.ntheta(); j++)
                    if (std::fabs(c.theta(j) - g.theta(2 * j)) > 1e-14)
                        return "BAD nesting: angle " + std::to_string(j);
            }
            // the number of levels setup() would report for this grid must be admitted by the grid: ask the real
            // chooseNumberOfLevels() and coarsen that many times
            {
                Cfg k;
                k.exact  = 0;
                k.maxlev = -1;
                auto sv  = makeSolver(k);
                int want = expectedLevels(g.nr(), g.ntheta(), -1);
                int got  = -1;
                try {
                    got = sv->chooseNumberOfLevels(g);
                }
                catch (const std::exception&) {
                    got = 1; // "fewer than two levels" is reported by an exception
                }
                if (std::max(want, 1) != got && !(want < 2 && got == 1))
                    return "BAD levels: chooseNumberOfLevels gives " + std::to_string(got) + ", the grid " + std::to_string(g.nr()) + "x" +
                           std::to_string(g.ntheta()) + " admits " + std::to_string(want);
                PolarGrid f = g;
                for (int d = 1; d < got; d++) {
                    if ((f.nr() - 1) % 2 != 0 || f.ntheta() % 4 != 0)
                        return "BAD levels: level " + std::to_string(d - 1) + " (" + std::to_string(f.nr()) + "x" + std::to_string(f.ntheta()) +
                               ") cannot be coarsened but " + std::to_string(got) + " levels are reported";
                    PolarGrid c = coarseningGrid(f);
                    if (c.radius(0) != f.radius(0) || c.radius(c.nr() - 1) != f.radius(f.nr() - 1))
                        return "BAD levels: coarsening to level " + std::to_string(d) + " loses a boundary";
                    f = c;
                }
            }
            return "OK " + std::to_string(g.nr()) + "x" + std::to_string(g.ntheta());
        }
        if (s.kind == "levels") {
            Cfg k;
            k.geom = 0;
            k.prob = 0;
            k.alpha = 1;
            k.beta = 0;
            k.R0 = s.R0;
            k.Rmax = s.Rmax;
            k.ajump = s.ref;
            k.nr_exp = s.nr_exp;
            k.ntheta_exp = s.ntheta_exp;
            k.aniso = s.aniso;
            k.div2 = s.div2;
            k.maxlev = s.maxlev;
            k.exact = 0;
            auto sv = makeSolver(k);
            sv->setup();
            const PolarGrid& g = sv->grid();
            std::string e = validGrid(g, s.R0, s.Rmax, true);
            if (!e.empty())
                return "BAD invalid-grid: " + e;
            int want = expectedLevels(g.nr(), g.ntheta(), s.maxlev);
            if (sv->number_of_levels_ != want || (int)sv->levels_.size() != want)
                return "BAD levels: setup reports " + std::to_string(sv->number_of_levels_) + ", admissible coarsenings give " +
                       std::to_string(want) + " for " + std::to_string(g.nr()) + "x" + std::to_string(g.ntheta());
            for (int d = 1; d < want; d++) {
                const PolarGrid& f = sv->levels_[d - 1].grid();
                const PolarGrid& c = sv->levels_[d].grid();
                if (c.nr() != (f.nr() + 1) / 2 || c.ntheta() != f.ntheta() / 2)
                    return "BAD level grid sizes";
                std::string e2 = validGrid(c, s.R0, s.Rmax, false);
                if (!e2.empty())
                    return "BAD coarse level invalid: " + e2;
            }
            return "OK levels=" + std::to_string(want);
        }
        std::string fr = g_tmp + "/r_" + std::to_string(getpid()) + ".txt", ft = g_tmp + "/t_" + std::to_string(getpid()) + ".txt";
        if (s.kind == "roundtrip") {
            PolarGrid g(s.R0, s.Rmax, s.nr_exp, s.ntheta_exp, s.ref, s.aniso, s.div2);
            g.writeToFile(fr, ft, 18);
            PolarGrid l(fr, ft);
            unlink(fr.c_str());
            unlink(ft.c_str());
            if (l.nr() != g.nr() || l.ntheta() != g.ntheta())
                return "BAD roundtrip: sizes differ";
            for (int i = 0; i < g.nr(); i++)
                if (std::fabs(l.radius(i) - g.radius(i)) > 1e-15 * std::max(1.0, g.radius(i)))
                    return "BAD roundtrip: radius " + std::to_string(i);
            for (int j = 0; j <= g.ntheta(); j++)
                if (std::fabs(l.theta(j) - g.theta(j)) > 1e-15 * 2 * M_PI)
                    return "BAD roundtrip: angle " + std::to_string(j);
            std::string e = validGrid(l, s.R0, s.Rmax, false);
            if (!e.empty())
                return "BAD roundtrip: loaded grid invalid: " + e;
            return "OK roundtrip";
        }
        if (s.kind == "fault") {
            PolarGrid g(s.R0, s.Rmax, s.nr_exp, s.ntheta_exp, s.ref, s.aniso, s.div2);
            std::vector<std::string> rt, tt;
            for (double v : g.radii()) {
                std::ostringstream os;
                os.precision(17);
                os << v;
                rt.push_back(os.str());
            }
            for (double v : g.angles()) {
                std::ostringstream os;
                os.precision(17);
                os << v;
                tt.push_back(os.str());
            }
            bool writeR = true, writeT = true;
            if (s.fault == "missing-radii")
                writeR = false;
            else if (s.fault == "missing-angles")
                writeT = false;
            else if (s.fault == "empty-radii")
                rt.clear();
            else if (s.fault == "empty-angles")
                tt.clear();
            else if (s.fault == "one-radius")
                rt.resize(1);
            else if (s.fault == "one-angle")
                tt.resize(1);
            else if (s.fault == "two-angles")
                tt.resize(2);
            else if (s.fault == "bad-token-radii") {
                if (s.pos < (int)rt.size())
                    rt[s.pos] = "abc";
            }
            else if (s.fault == "bad-token-angles") {
                if (s.pos < (int)tt.size())
                    tt[s.pos] = "x1";
            }
            else if (s.fault == "angles-missing-last")
                tt.pop_back();
            else if (s.fault == "radii-negative") {
                if (s.pos < (int)rt.size())
                    rt[s.pos] = "-" + rt[s.pos];
            }
            else if (s.fault == "radii-duplicate") {
                if (s.pos + 1 < (int)rt.size())
                    rt[s.pos + 1] = rt[s.pos];
            }
            else if (s.fault == "nan-radius") {
                if (s.pos < (int)rt.size())
                    rt[s.pos] = "nan";
            }
            else if (s.fault.rfind("angle-", 0) == 0 || s.fault == "nan-angle") {
                const int na = (int)tt.size();
                const int p  = s.pos;
                auto num     = [&](int i) { return g.angles()[i]; };
                auto str     = [](double v) {
                    std::ostringstream os;
                    os.precision(17);
                    os << v;
                    return os.str();
                };
                if (p < na) {
                    if (s.fault == "angle-shift") // towards the next angle (the last one: back towards its predecessor)
                        tt[p] = str(p + 1 < na ? num(p) + 0.37 * (num(p + 1) - num(p)) : num(p) - 0.37 * (num(p) - num(p - 1)));
                    else if (s.fault == "angle-pair-shift") { // node and antipode together: still a valid grid
                        const int nt2 = (na - 1) / 2;
                        if (p > 0 && p < nt2) {
                            tt[p]       = str(num(p) + 0.37 * (num(p + 1) - num(p)));
                            tt[p + nt2] = str(num(p) + 0.37 * (num(p + 1) - num(p)) + M_PI);
                        }
                    }
                    else if (s.fault == "angle-insert") {
                        if (p + 1 < na)
                            tt.insert(tt.begin() + p + 1, str(0.5 * (num(p) + num(p + 1))));
                        else
                            tt.push_back(str(num(p) + 0.1));
                    }
                    else if (s.fault == "angle-delete")
                        tt.erase(tt.begin() + p);
                    else if (s.fault == "angle-duplicate") {
                        if (p + 1 < na)
                            tt[p + 1] = tt[p];
                    }
                    else if (s.fault == "angle-swap") {
                        if (p + 1 < na)
                            std::swap(tt[p], tt[p + 1]);
                    }
                    else if (s.fault == "angle-negative")
                        tt[p] = "-" + tt[p];
                    else if (s.fault == "nan-angle")
                        tt[p] = "nan";
                }
            }
            if (s.via == "array") {
                // the same (numeric) fault through PolarGrid(radii, angles)
                std::vector<double> rv, tv;
                for (auto& t : rt)
                    rv.push_back(strtod(t.c_str(), nullptr));
                for (auto& t : tt)
                    tv.push_back(strtod(t.c_str(), nullptr));
                std::string verdict;
                try {
                    PolarGrid l(rv, tv);
                    std::string e = validGrid(l, s.R0, s.Rmax, false);
                    long acc      = 0;
                    for (int i = 0; i < l.nr(); i++)
                        for (int j = 0; j < l.ntheta(); j++)
                            acc += l.index(i, j);
                    (void)acc;
                    verdict = e.empty() ? "OK accepted-valid-grid " + std::to_string(l.nr()) + "x" + std::to_string(l.ntheta())
                                        : "BAD accepted-invalid-grid: " + e;
                }
                catch (const std::exception& ex) {
                    verdict = std::string("REJECTED ") + ex.what();
                }
                return verdict;
            }
            if (writeR) {
                std::ofstream f(fr);
                for (auto& t : rt)
                    f << t << "\n";
            }
            if (writeT) {
                std::ofstream f(ft);
                for (auto& t : tt)
                    f << t << "\n";
            }
            std::string verdict;
            try {
                PolarGrid l(fr, ft);
                std::string e = validGrid(l, s.R0, s.Rmax, false);
                // exercise the grid a little: a grid that was accepted must be usable
                long acc = 0;
                for (int i = 0; i < l.nr(); i++)
                    for (int j = 0; j < l.ntheta(); j++)
                        acc += l.index(i, j);
                verdict = e.empty() ? "OK accepted-valid-grid " + std::to_string(l.nr()) + "x" + std::to_string(l.ntheta())
                                    : "BAD accepted-invalid-grid: " + e;
                (void)acc;
            }
            catch (const std::exception& ex) {
                verdict = std::string("REJECTED ") + ex.what();
            }
            unlink(fr.c_str());
            unlink(ft.c_str());
            return verdict;
        }
    }
    catch (const std::exception& ex) {
        return std::string("REJECTED ") + ex.what();
    }
    return "BAD unknown kind";
}

static long g_n = 0, g_ok = 0, g_rej = 0, g_bad = 0, g_crash = 0;
static std::set<std::string> g_distinct;

static void runForked(const Spec& s)
{
    g_n++;
    int pout[2], perr[2];
    if (pipe(pout) || pipe(perr))
        exit(5);
    fflush(stdout);
    pid_t pid = fork();
    if (pid == 0) {
        close(pout[0]);
        close(perr[0]);
        dup2(perr[1], 2);
        int devnull = open("/dev/null", O_WRONLY);
        dup2(devnull, 1);
        std::string r = runSpec(s);
        for (auto& ch : r)
            if (ch == '\n')
                ch = ' ';
        (void)!write(pout[1], r.data(), std::min<size_t>(r.size(), 900));
        _exit(0);
    }
    close(pout[1]);
    close(perr[1]);
    char buf[1024], ebuf[4096];
    ssize_t n = read(pout[0], buf, sizeof buf - 1);
    if (n < 0)
        n = 0;
    buf[n] = 0;
    size_t en = 0;
    ssize_t k;
    while (en < sizeof ebuf - 1 && (k = read(perr[0], ebuf + en, sizeof ebuf - 1 - en)) > 0)
        en += k;
    ebuf[en] = 0;
    char drain[4096];
    while (read(perr[0], drain, sizeof drain) > 0) {
    }
    close(pout[0]);
    close(perr[0]);
    int st = 0;
    waitpid(pid, &st, 0);
    std::string verdict = buf;
    if (!(WIFEXITED(st) && WEXITSTATUS(st) == 0) || verdict.empty()) {
        g_crash++;
        std::string first;
        std::istringstream is(ebuf);
        std::string l;
        while (std::getline(is, l))
            if (l.find("ERROR: AddressSanitizer") != std::string::npos || l.find("runtime error") != std::string::npos ||
                l.find("Assertion") != std::string::npos || l.find("terminate called") != std::string::npos) {
                first = l;
                break;
            }
        if (first.empty())
            first = WIFSIGNALED(st) ? "killed by signal " + std::to_string(WTERMSIG(st)) : "exit status " + std::to_string(WEXITSTATUS(st));
        printf("CRASH %s | %s\n", s.str().c_str(), first.substr(0, 300).c_str());
        return;
    }
    if (verdict.rfind("OK", 0) == 0) {
        g_ok++;
        if (g_distinct.size() < 100000)
            g_distinct.insert(verdict + (s.kind == "fault" ? s.fault : ""));
        if (g_ok % 997 == 5)
            printf("SAMPLE %s -> %s\n", s.str().c_str(), verdict.c_str());
    }
    else if (verdict.rfind("REJECTED", 0) == 0) {
        g_rej++;
        if (g_rej % 499 == 3)
            printf("SAMPLE %s -> %s\n", s.str().c_str(), verdict.substr(0, 120).c_str());
    }
    else {
        g_bad++;
        printf("BADCASE %s | %s\n", s.str().c_str(), verdict.c_str());
    }
}

int main(int argc, char** argv)
{
    std::string mode = argc > 1 ? argv[1] : "enumerate";
    if (mode == "replay") {
        g_tmp = argc > 2 ? argv[2] : "/tmp";
        std::string line;
        while (std::getline(std::cin, line)) {
            Case c = Case::parse(line);
            Spec s;
            s.kind = c.str("kind", "ctor");
            s.R0 = c.d("R0", 1e-5);
            s.Rmax = c.d("Rmax", 1.3);
            s.ref = c.d("ref", 0);
            s.nr_exp = c.i("nr_exp", 4);
            s.ntheta_exp = c.i("ntheta_exp", -1);
            s.aniso = c.i("aniso", 0);
            s.div2 = c.i("div2", 0);
            s.maxlev = c.i("maxlev", -1);
            s.fault = c.str("fault", "-");
            s.pos = c.i("pos", 0);
            s.via = c.str("via", "file");
            runForked(s);
        }
    }
    else {
        bool thorough = argc > 2 && std::string(argv[2]) == "thorough";
        int part = argc > 3 ? atoi(argv[3]) : 0, nparts = argc > 4 ? atoi(argv[4]) : 1;
        g_tmp = argc > 5 ? argv[5] : "/tmp";
        long counter = 0;
        auto mine = [&]() { return (counter++ % nparts) == part; };
        std::vector<std::pair<double, double>> domains = {{1e-5, 1.3}, {0.1, 1.0}, {1.0, 2.0}};
        const int maxNrExp = thorough ? 6 : 5, maxDiv = thorough ? 2 : 1;
        std::vector<int> ntes = thorough ? std::vector<int>{-1, 2, 3, 4, 5, 6, 7} : std::vector<int>{-1, 2, 3, 6};
        for (auto dom : domains) {
            double R0 = dom.first, Rmax = dom.second;
            std::vector<double> refs = {0.0, R0, Rmax, 1.5 * Rmax, R0 - 0.5 * R0};
            int nfr = thorough ? 11 : 7;
            for (int k = 1; k <= nfr; k++)
                refs.push_back(R0 + (Rmax - R0) * k / (nfr + 1.0));
            refs.push_back(R0 + (Rmax - R0) * 1e-3);
            refs.push_back(Rmax - (Rmax - R0) * 1e-3);
            for (int nr_exp = 1; nr_exp <= maxNrExp; nr_exp++)
                for (int nte : ntes)
                    for (int aniso = 0; aniso <= nr_exp + 1; aniso++)
                        for (int div2 = 0; div2 <= maxDiv; div2++) {
                            if (nte >= 6 && div2 >= 2 && nr_exp >= 6)
                                continue; // > 130k nodes: nothing new, only slow
                            std::vector<double> rr = (aniso == 0) ? std::vector<double>{0.0, 0.5 * (R0 + Rmax)} : refs;
                            for (double ref : rr) {
                                Spec s;
                                s.kind = "ctor";
                                s.R0 = R0;
                                s.Rmax = Rmax;
                                s.ref = ref;
                                s.nr_exp = nr_exp;
                                s.ntheta_exp = nte;
                                s.aniso = aniso;
                                s.div2 = div2;
                                if (mine())
                                    runForked(s);
                            }
                        }
            // setup(): number of levels
            {
                std::vector<int> lnte = thorough ? std::vector<int>{-1, 3, 4, 5, 6} : std::vector<int>{-1, 4};
                std::vector<int> lml  = thorough ? std::vector<int>{-1, 2, 3} : std::vector<int>{-1, 2};
                for (int nr_exp = 2; nr_exp <= (thorough ? 6 : 4); nr_exp++)
                    for (int nte : lnte)
                        for (int aniso : {0, 1, 2, 3})
                            for (int div2 = 0; div2 <= 1; div2++)
                                for (int maxlev : lml) {
                                    if (aniso >= nr_exp || (!thorough && aniso == 3))
                                        continue;
                                    if (nr_exp == 6 && (div2 > 0 || nte > 5))
                                        continue; // > 60k nodes under ASan: minutes per setup(), nothing new

                                    Spec s;
                                    s.kind = "levels";
                                    s.R0 = R0;
                                    s.Rmax = Rmax;
                                    s.ref = R0 + 0.66 * (Rmax - R0);
                                    s.nr_exp = nr_exp;
                                    s.ntheta_exp = nte;
                                    s.aniso = aniso;
                                    s.div2 = div2;
                                    s.maxlev = maxlev;
                                    if (mine())
                                        runForked(s);
                                }
            }
            // files
            for (int nr_exp : {2, 3})
                for (int aniso : {0, 1}) {
                    Spec b;
                    b.R0 = R0;
                    b.Rmax = Rmax;
                    b.ref = R0 + 0.5 * (Rmax - R0);
                    b.nr_exp = nr_exp;
                    b.ntheta_exp = 3;
                    b.aniso = aniso;
                    b.kind = "roundtrip";
                    if (mine())
                        runForked(b);
                    b.kind = "fault";
                    for (const char* f : {"missing-radii", "missing-angles", "empty-radii", "empty-angles", "one-radius", "one-angle",
                                          "two-angles", "angles-missing-last"}) {
                        b.fault = f;
                        b.pos = 0;
                        if (mine())
                            runForked(b);
                    }
                    for (const char* f : {"bad-token-radii", "bad-token-angles", "radii-negative", "radii-duplicate", "nan-radius"})
                        for (int pos = 0; pos < 9; pos++) {
                            b.fault = f;
                            b.pos = pos;
                            if (mine())
                                runForked(b);
                        }
                }
        }
    // angle-array faults: every position of the angle array x {file, array} constructor (the angle array does not depend on the
    // radial parameters, so one radial base per angular size)
    {
        std::vector<int> ntes2 = thorough ? std::vector<int>{2, 3, 4, 5} : std::vector<int>{2, 3, 4};
        for (int nte : ntes2) {
            Spec b;
            b.R0 = 0.1;
            b.Rmax = 1.3;
            b.nr_exp = 2;
            b.ntheta_exp = nte;
            b.kind = "fault";
            const int na = (1 << nte) + 1;
            for (const char* via : {"file", "array"})
                for (const char* f : {"angle-shift", "angle-pair-shift", "angle-insert", "angle-delete", "angle-duplicate", "angle-swap",
                                      "angle-negative", "nan-angle"})
                    for (int pos = 0; pos < na; pos++) {
                        b.fault = f;
                        b.pos = pos;
                        b.via = via;
                        if (mine())
                            runForked(b);
                    }
        }
    }
    }
    printf("STAT cases %ld\nSTAT accepted %ld\nSTAT rejected %ld\nSTAT bad %ld\nSTAT crashed %ld\nSTAT distinct %zu\n", g_n, g_ok, g_rej,
           g_bad, g_crash, g_distinct.size());
    return 0;
}
