// C17: exhaustive enumeration of small PolarGrid shapes x split classes x unwrapped indices; the grid's
// queries are compared with a plain reference numbering computed from the coordinate arrays.
//
// usage: c17_grid enumerate <quick|thorough> <part> <nparts>
//        c17_grid replay  (stdin: "nr=.. ntheta=.. coords=0|1 split=<auto|value>")
#include <cmath>
#include <cstdio>
#include <optional>
#include <set>
#include <sstream>
#include <string>
#include <vector>

#include "PolarGrid/polargrid.h"

static long g_grids = 0, g_queries = 0, g_viol = 0, g_coarsenings = 0;
static std::set<std::string> g_shapes;
static int g_samples = 0;

struct Spec {
    int nr, ntheta, coords;
    bool autoSplit;
    double split;
    std::string splitClass;
};
static std::string specStr(const Spec& s)
{
    char b[200];
    snprintf(b, sizeof b, "nr=%d ntheta=%d coords=%d split=%s class=%s", s.nr, s.ntheta, s.coords,
             s.autoSplit ? "auto" : (std::to_string(s.split)).c_str(), s.splitClass.c_str());
    std::ostringstream os;
    os.precision(17);
    os << "nr=" << s.nr << " ntheta=" << s.ntheta << " coords=" << s.coords << " split=";
    if (s.autoSplit)
        os << "auto";
    else
        os << s.split;
    os << " class=" << s.splitClass;
    return os.str();
}
static void viol(const std::string& key, const std::string& what, const Spec& s)
{
    g_viol++;
    if (g_viol <= 40)
        printf("VIOL %s | %s | %s\n", key.c_str(), what.c_str(), specStr(s).c_str());
}

static std::vector<double> makeRadii(int nr, int coords)
{
    std::vector<double> r(nr);
    for (int i = 0; i < nr; i++) {
        if (coords == 0)
            r[i] = 0.1 + 1.2 * i / (nr - 1);
        else if (coords >= 100) // uniform annulus whose inner radius is (coords - 100) / 40 of the outer one (automatic-split sweep)
            r[i] = 1.3 * ((coords - 100) / 40.0) + 1.3 * (1.0 - (coords - 100) / 40.0) * i / (nr - 1);
        else // irregular, strictly increasing
            r[i] = 1e-5 + 1.3 * (i == 0 ? 0.0 : pow((double)i / (nr - 1), 1.7)) + (i % 2 ? 0.013 : 0.0) * (i < nr - 1);
    }
    return r;
}
static std::vector<double> makeAngles(int ntheta, int coords)
{
    // antipodally symmetric: angle set invariant under +pi
    std::vector<double> a(ntheta + 1);
    int half = ntheta / 2;
    for (int j = 0; j < half; j++) {
        double t = M_PI * j / half;
        if (coords == 1 && j > 0)
            t += (j % 2 ? 0.31 : -0.17) * M_PI / half; // irregular inside the half circle
        a[j]        = t;
        a[j + half] = t + M_PI;
    }
    a[ntheta] = 2 * M_PI;
    return a;
}
static int mathMod(int u, int n)
{
    int m = u % n;
    return m < 0 ? m + n : m;
}

static void checkGrid(const PolarGrid& g, const std::vector<double>& radii, const std::vector<double>& angles,
                      const Spec& s)
{
    g_grids++;
    const int nr = (int)radii.size(), nt = (int)angles.size() - 1, N = nr * nt;
    if (g.nr() != nr || g.ntheta() != nt || g.numberOfNodes() != N) {
        viol("sizes", "nr()/ntheta()/numberOfNodes() disagree with the coordinate arrays", s);
        return;
    }
    const int C = g.numberSmootherCircles(), L = g.lengthSmootherRadial();
    if (C < 0 || L < 0 || C + L != nr || g.numberCircularSmootherNodes() != C * nt ||
        g.numberRadialSmootherNodes() != L * nt ||
        g.numberCircularSmootherNodes() + g.numberRadialSmootherNodes() != N) {
        viol("split:partition", "circle/radial split does not partition the nodes", s);
        return;
    }
    if (s.autoSplit && nr >= 5) {
        // the automatic split keeps the minimum sizes every smoother relies on: at least 2 circles (3 once nr > 5) and radial
        // lines of at least 3 nodes
        if (C < 2 || L < 3 || (nr > 5 && C < 3))
            viol("split:auto-minimum", "the automatic split leaves " + std::to_string(C) + " circles and radial lines of " + std::to_string(L) +
                                            " nodes (needed: >= 2 (3 for nr > 5) circles, >= 3 radial nodes)", s);
    }
    if (!s.autoSplit) {
        if (s.split < radii.front() && C != 0) {
            viol("split:below", "splitting radius below R0 must give a purely radial numbering", s);
            return;
        }
        if (s.split > radii.back() && C != nr) {
            viol("split:above", "splitting radius above Rmax must give a purely circular numbering", s);
            return;
        }
        // circles are an initial segment of radii not beyond the splitting radius
        for (int i = 0; i + 1 < C; i++)
            if (!(radii[i] < s.split)) {
                viol("split:order", "a circle line lies at or beyond the splitting radius", s);
                return;
            }
        for (int i = C + 1; i < nr; i++)
            if (!(radii[i] > s.split)) {
                viol("split:order", "a radial-section node lies inside the splitting radius", s);
                return;
            }
    }
    // numbering: bijection, all API pairs agree, reference layout
    std::vector<char> seen(N, 0);
    for (int i = 0; i < nr; i++)
        for (int j = 0; j < nt; j++) {
            g_queries++;
            int ref = i < C ? j + nt * i : C * nt + (i - C) + L * j;
            int a = g.index(i, j), b = g.fastIndex(i, j), c = g.index(MultiIndex(i, j));
            if (a != ref || b != ref || c != ref) {
                viol("index:layout", "index/fastIndex/index(MultiIndex) disagree with the documented layout", s);
                return;
            }
            if (a < 0 || a >= N || seen[a]) {
                viol("index:bijection", "node numbering is not a bijection onto 0..N-1", s);
                return;
            }
            seen[a] = 1;
            if ((a < g.numberCircularSmootherNodes()) != (i < C)) {
                viol("split:membership", "node index and circle/radial membership disagree", s);
                return;
            }
            int ri, tj;
            g.multiIndex(a, ri, tj);
            MultiIndex mi = g.multiIndex(a);
            if (ri != i || tj != j || mi[0] != i || mi[1] != j) {
                viol("index:inverse", "multiIndex(index(i,j)) != (i,j)", s);
                return;
            }
            Point p = g.polarCoordinates(MultiIndex(i, j));
            if (p[0] != radii[i] || p[1] != angles[j]) {
                viol("coords", "polarCoordinates disagree with the coordinate arrays", s);
                return;
            }
            // neighbours
            std::array<std::pair<int, int>, space_dimension> adj, dia;
            std::array<std::pair<double, double>, space_dimension> dist;
            g.adjacentNeighborsOf(MultiIndex(i, j), adj);
            g.diagonalNeighborsOf(MultiIndex(i, j), dia);
            g.adjacentNeighborDistances(MultiIndex(i, j), dist);
            auto refIdx = [&](int ii, int jj) {
                if (ii < 0 || ii >= nr)
                    return -1;
                jj = mathMod(jj, nt);
                return ii < C ? jj + nt * ii : C * nt + (ii - C) + L * jj;
            };
            if (adj[0].first != refIdx(i - 1, j) || adj[0].second != refIdx(i + 1, j) ||
                adj[1].first != refIdx(i, j - 1) || adj[1].second != refIdx(i, j + 1)) {
                viol("neighbours:adjacent", "adjacentNeighborsOf disagrees with the numbering", s);
                return;
            }
            if (dia[0].first != refIdx(i - 1, j - 1) || dia[0].second != refIdx(i + 1, j - 1) ||
                dia[1].first != refIdx(i - 1, j + 1) || dia[1].second != refIdx(i + 1, j + 1)) {
                viol("neighbours:diagonal", "diagonalNeighborsOf disagrees with the numbering", s);
                return;
            }
            double h1 = i > 0 ? radii[i] - radii[i - 1] : 0.0, h2 = i < nr - 1 ? radii[i + 1] - radii[i] : 0.0;
            int jm    = mathMod(j - 1, nt);
            double k1 = angles[jm + 1] - angles[jm], k2 = angles[j + 1] - angles[j];
            if (dist[0].first != h1 || dist[0].second != h2 || dist[1].first != k1 || dist[1].second != k2) {
                viol("neighbours:distances", "adjacentNeighborDistances disagree with the coordinate arrays", s);
                return;
            }
        }
    for (int k = 0; k < N; k++)
        if (!seen[k]) {
            viol("index:bijection", "node numbering is not onto 0..N-1", s);
            return;
        }
    // coordinates and spacings
    for (int i = 0; i < nr; i++)
        if (g.radius(i) != radii[i]) {
            viol("coords", "radius(i) disagrees", s);
            return;
        }
    for (int i = 0; i + 1 < nr; i++)
        if (g.radialSpacing(i) != radii[i + 1] - radii[i]) {
            viol("spacing:radial", "radialSpacing(i) != r[i+1]-r[i]", s);
            return;
        }
    for (int j = 0; j <= nt; j++)
        if (g.theta(j) != angles[j]) {
            viol("coords", "theta(j) disagrees", s);
            return;
        }
    // periodic wrap over a wide range of unwrapped indices
    for (int u = -3 * nt - 1; u <= 3 * nt + 1; u++) {
        g_queries++;
        int m = mathMod(u, nt);
        if (g.wrapThetaIndex(u) != m) {
            viol(std::string("wrap:") + (((nt & (nt - 1)) == 0) ? "pow2" : "general"),
                 "wrapThetaIndex(" + std::to_string(u) + ") is not the mathematical modulo", s);
            return;
        }
        if (g.angularSpacing(u) != angles[m + 1] - angles[m]) {
            viol("spacing:angular", "angularSpacing(unwrapped) disagrees with the angle array", s);
            return;
        }
        for (int i = 0; i < nr; i += (nr > 3 ? nr - 1 : 1))
            if (g.index(i, u) != g.index(i, m)) {
                viol("index:periodic", "index(i, unwrapped) != index(i, wrapped)", s);
                return;
            }
    }
}

static void checkCoarseningChain(const PolarGrid& g0, const Spec& s)
{
    PolarGrid g = g0;
    while ((g.nr() - 1) % 2 == 0 && g.ntheta() % 2 == 0 && g.nr() >= 3 && g.ntheta() >= 4) {
        // the coarse angle set must still be antipodally symmetric for the constructor to accept it
        if ((g.ntheta() / 2) % 2 != 0)
            break;
        PolarGrid c = coarseningGrid(g);
        g_coarsenings++;
        if (c.nr() != (g.nr() + 1) / 2 || c.ntheta() != g.ntheta() / 2) {
            viol("coarsen:size", "coarse grid size is not (nr+1)/2 x ntheta/2", s);
            return;
        }
        for (int i = 0; i < c.nr(); i++)
            if (c.radius(i) != g.radius(2 * i)) {
                viol("coarsen:radii", "coarse radius i is not fine radius 2i", s);
                return;
            }
        for (int j = 0; j <= c.ntheta(); j++)
            if (c.theta(j) != g.theta(2 * j)) {
                viol("coarsen:angles", "coarse angle j is not fine angle 2j", s);
                return;
            }
        if (c.radius(0) != g.radius(0) || c.radius(c.nr() - 1) != g.radius(g.nr() - 1)) {
            viol("coarsen:boundary", "coarsening lost a boundary", s);
            return;
        }
        Spec cs       = s;
        cs.autoSplit  = true;
        cs.splitClass = "coarse-of-" + s.splitClass;
        checkGrid(c, c.radii(), c.angles(), cs);
        g = c;
    }
}

static void runSpec(const Spec& s)
{
    std::vector<double> radii = makeRadii(s.nr, s.coords), angles = makeAngles(s.ntheta, s.coords);
    try {
        PolarGrid g = s.autoSplit ? PolarGrid(radii, angles) : PolarGrid(radii, angles, s.split);
        g_shapes.insert(std::to_string(s.nr) + "x" + std::to_string(s.ntheta) + "c" + std::to_string(s.coords) + "C" +
                        std::to_string(g.numberSmootherCircles()));
        checkGrid(g, radii, angles, s);
        checkCoarseningChain(g, s);
        if (g_samples < 4 && g_grids % 211 == 3) {
            g_samples++;
            printf("SAMPLE %s circles=%d\n", specStr(s).c_str(), g.numberSmootherCircles());
        }
    }
    catch (const std::exception& e) {
        viol("constructor:throws", std::string("admissible grid rejected: ") + e.what(), s);
    }
}

int main(int argc, char** argv)
{
    std::string mode = argc > 1 ? argv[1] : "enumerate";
    if (mode == "replay") {
        char buf[4096];
        while (fgets(buf, sizeof buf, stdin)) {
            std::istringstream is(buf);
            std::string tok;
            Spec s{0, 0, 0, true, 0.0, "replay"};
            while (is >> tok) {
                auto p = tok.find('=');
                if (p == std::string::npos)
                    continue;
                std::string k = tok.substr(0, p), v = tok.substr(p + 1);
                if (k == "nr")
                    s.nr = atoi(v.c_str());
                else if (k == "ntheta")
                    s.ntheta = atoi(v.c_str());
                else if (k == "coords")
                    s.coords = atoi(v.c_str());
                else if (k == "split") {
                    s.autoSplit = (v == "auto");
                    if (!s.autoSplit)
                        s.split = strtod(v.c_str(), nullptr);
                }
                else if (k == "class")
                    s.splitClass = v;
            }
            if (s.nr >= 2 && s.ntheta >= 2)
                runSpec(s);
        }
    }
    else {
        bool thorough = argc > 2 && std::string(argv[2]) == "thorough";
        int part = argc > 3 ? atoi(argv[3]) : 0, nparts = argc > 4 ? atoi(argv[4]) : 1;
        long counter = 0;
        std::vector<int> nts = {2, 4, 6, 8, 10, 12, 16};
        if (thorough) {
            nts.push_back(20);
            nts.push_back(24);
            nts.push_back(32);
        }
        for (int nr = 2; nr <= (thorough ? 11 : 7); nr++)
            for (int nt : nts)
                for (int coords = 0; coords < 2; coords++) {
                    std::vector<double> radii = makeRadii(nr, coords);
                    std::vector<Spec> specs;
                    specs.push_back({nr, nt, coords, true, 0.0, "auto"});
                    specs.push_back({nr, nt, coords, false, radii.front() * 0.5, "below-R0"});
                    specs.push_back({nr, nt, coords, false, radii.back() + 0.25, "above-Rmax"});
                    for (int i = 0; i < nr; i++) {
                        specs.push_back({nr, nt, coords, false, radii[i], "at-radius-" + std::to_string(i)});
                        if (i + 1 < nr)
                            specs.push_back({nr, nt, coords, false, 0.5 * (radii[i] + radii[i + 1]),
                                             "between-" + std::to_string(i) + "-" + std::to_string(i + 1)});
                    }
                    for (auto& s : specs)
                        if ((counter++ % nparts) == part)
                            runSpec(s);
                }
    }
    if (mode != "replay") {
        // automatic-split sweep: many angular nodes per radial node and 39 inner radii, so that the radius at which the angular
        // arc first exceeds the radial step passes through every circle, the last interior one included
        bool thorough = argc > 2 && std::string(argv[2]) == "thorough";
        int part = argc > 3 ? atoi(argv[3]) : 0, nparts = argc > 4 ? atoi(argv[4]) : 1;
        long counter = 0;
        for (int nr : {5, 6, 7, 9, 11})
            for (int nt : (thorough ? std::vector<int>{16, 32, 64, 128, 256} : std::vector<int>{32, 64, 128}))
                for (int k = 1; k < 40; k++) {
                    Spec sp{nr, nt, 100 + k, true, 0.0, "auto-sweep"};
                    if ((counter++ % nparts) == part)
                        runSpec(sp);
                }
    }
    printf("STAT grids %ld\nSTAT queries %ld\nSTAT coarsenings %ld\nSTAT distinct_shapes %zu\nSTAT violations %ld\n",
           g_grids, g_queries, g_coarsenings, g_shapes.size(), g_viol);
    return 0;
}
