// Configuration of an assembled GMGPolar solver for the harness probes (cfglat / histbfs engines).
#pragma once
#include "hcommon.h"

namespace vh
{

struct Cfg {
    // problem
    int geom = 0, prob = 0, alpha = 1, beta = 0;
    double Rmax = 1.3, R0 = 1e-5, kappa = 0.3, delta = 0.2, ajump = 0.66 * 1.3;
    // grid
    int nr_exp = 4, ntheta_exp = 5, aniso = 0, div2 = 0;
    int dirbc = 0;
    // multigrid
    int fmg = 0, fmg_it = 2, fmg_cycle = 0, extr = 0, maxlev = -1, pre = 1, post = 1, cycle = 0, maxit = 150, norm = 0;
    double abstol = 1e-8, reltol = 1e-8;
    // general
    int threads = 1, strat = 0, cc = 1, cg = 1, exact = 1, verbose = 0, paraview = 0;
    // grid files through the solver: 0 none, 1 write (names set), 2 load what a solver just wrote, 3 load missing files,
    // 4 load with no names set, 5 write with no names set
    int gridfile = 0;
    double tfactor = 1.0;

    static Cfg fromCase(const Case& c)
    {
        Cfg k;
        k.geom       = c.i("geom", k.geom);
        k.prob       = c.i("prob", k.prob);
        k.alpha      = c.i("alpha", k.alpha);
        k.beta       = c.i("beta", k.beta);
        k.Rmax       = c.d("Rmax", k.Rmax);
        k.R0         = c.d("R0", k.R0);
        k.kappa      = c.d("kappa", k.kappa);
        k.delta      = c.d("delta", k.delta);
        k.ajump      = c.d("ajump", 0.66 * k.Rmax);
        k.nr_exp     = c.i("nr_exp", k.nr_exp);
        k.ntheta_exp = c.i("ntheta_exp", k.ntheta_exp);
        k.aniso      = c.i("aniso", k.aniso);
        k.div2       = c.i("div2", k.div2);
        k.dirbc      = c.i("dirbc", k.dirbc);
        k.fmg        = c.i("fmg", k.fmg);
        k.fmg_it     = c.i("fmg_it", k.fmg_it);
        k.fmg_cycle  = c.i("fmg_cycle", k.fmg_cycle);
        k.extr       = c.i("extr", k.extr);
        k.maxlev     = c.i("maxlev", k.maxlev);
        k.pre        = c.i("pre", k.pre);
        k.post       = c.i("post", k.post);
        k.cycle      = c.i("cycle", k.cycle);
        k.maxit      = c.i("maxit", k.maxit);
        k.norm       = c.i("norm", k.norm);
        k.abstol     = c.d("abstol", k.abstol);
        k.reltol     = c.d("reltol", k.reltol);
        k.threads    = c.i("threads", k.threads);
        k.strat      = c.i("strat", k.strat);
        k.cc         = c.i("cc", k.cc);
        k.cg         = c.i("cg", k.cg);
        k.exact      = c.i("exact", k.exact);
        k.tfactor    = c.d("tfactor", k.tfactor);
        k.verbose    = c.i("verbose", 0);
        k.paraview   = c.i("paraview", 0);
        k.gridfile   = c.i("gridfile", 0);
        return k;
    }
    Problem problem() const
    {
        return Problem::select(geom, prob, alpha, beta, Rmax, kappa, delta, ajump);
    }
};

// all options through the PUBLIC setters
inline void applyOptions(GMGPolar& s, const Cfg& k)
{
    s.verbose(k.verbose);
    s.paraview(k.paraview != 0);
    s.maxOpenMPThreads(k.threads);
    s.threadReductionFactor(k.tfactor);
    s.stencilDistributionMethod(static_cast<StencilDistributionMethod>(k.strat));
    s.cacheDensityProfileCoefficients(k.cc != 0);
    s.cacheDomainGeometry(k.cg != 0);
    s.R0(k.R0);
    s.Rmax(k.Rmax);
    s.nr_exp(k.nr_exp);
    s.ntheta_exp(k.ntheta_exp);
    s.anisotropic_factor(k.aniso);
    s.divideBy2(k.div2);
    s.DirBC_Interior(k.dirbc != 0);
    s.FMG(k.fmg != 0);
    s.FMG_iterations(k.fmg_it);
    s.FMG_cycle(static_cast<MultigridCycleType>(k.fmg_cycle));
    s.extrapolation(static_cast<ExtrapolationType>(k.extr));
    s.maxLevels(k.maxlev);
    s.preSmoothingSteps(k.pre);
    s.postSmoothingSteps(k.post);
    s.multigridCycle(static_cast<MultigridCycleType>(k.cycle));
    s.maxIterations(k.maxit);
    s.residualNormType(static_cast<ResidualNormType>(k.norm));
    s.absoluteTolerance(k.abstol);
    s.relativeTolerance(k.reltol);
    s.write_grid_file(k.gridfile == 1 || k.gridfile == 5);
    s.load_grid_file(k.gridfile == 2 || k.gridfile == 3 || k.gridfile == 4 || k.gridfile == 6);
    if (k.gridfile == 1 || k.gridfile == 2) {
        s.file_grid_radii("solver_grid_radii.txt");
        s.file_grid_angles("solver_grid_angles.txt");
    }
    else if (k.gridfile == 6) {
        s.file_grid_radii("nonuniform_grid_radii.txt");
        s.file_grid_angles("nonuniform_grid_angles.txt");
    }
    else if (k.gridfile == 3) {
        s.file_grid_radii("no_such_radii_file.txt");
        s.file_grid_angles("no_such_angles_file.txt");
    }
    else {
        s.file_grid_radii("");
        s.file_grid_angles("");
    }
}

// only the options whose value differs from the previous block, as a user who changes one thing and calls setup()/solve() again
inline void applyOptionsDelta(GMGPolar& s, const Cfg& p, const Cfg& k)
{
    if (p.threads != k.threads)
        s.maxOpenMPThreads(k.threads);
    if (p.tfactor != k.tfactor)
        s.threadReductionFactor(k.tfactor);
    if (p.strat != k.strat)
        s.stencilDistributionMethod(static_cast<StencilDistributionMethod>(k.strat));
    if (p.cc != k.cc)
        s.cacheDensityProfileCoefficients(k.cc != 0);
    if (p.cg != k.cg)
        s.cacheDomainGeometry(k.cg != 0);
    if (p.R0 != k.R0)
        s.R0(k.R0);
    if (p.Rmax != k.Rmax)
        s.Rmax(k.Rmax);
    if (p.nr_exp != k.nr_exp)
        s.nr_exp(k.nr_exp);
    if (p.ntheta_exp != k.ntheta_exp)
        s.ntheta_exp(k.ntheta_exp);
    if (p.aniso != k.aniso)
        s.anisotropic_factor(k.aniso);
    if (p.div2 != k.div2)
        s.divideBy2(k.div2);
    if (p.dirbc != k.dirbc)
        s.DirBC_Interior(k.dirbc != 0);
    if (p.fmg != k.fmg)
        s.FMG(k.fmg != 0);
    if (p.fmg_it != k.fmg_it)
        s.FMG_iterations(k.fmg_it);
    if (p.fmg_cycle != k.fmg_cycle)
        s.FMG_cycle(static_cast<MultigridCycleType>(k.fmg_cycle));
    if (p.extr != k.extr)
        s.extrapolation(static_cast<ExtrapolationType>(k.extr));
    if (p.maxlev != k.maxlev)
        s.maxLevels(k.maxlev);
    if (p.pre != k.pre)
        s.preSmoothingSteps(k.pre);
    if (p.post != k.post)
        s.postSmoothingSteps(k.post);
    if (p.cycle != k.cycle)
        s.multigridCycle(static_cast<MultigridCycleType>(k.cycle));
    if (p.maxit != k.maxit)
        s.maxIterations(k.maxit);
    if (p.norm != k.norm)
        s.residualNormType(static_cast<ResidualNormType>(k.norm));
    if (p.abstol != k.abstol)
        s.absoluteTolerance(k.abstol);
    if (p.reltol != k.reltol)
        s.relativeTolerance(k.reltol);
    if (p.verbose != k.verbose)
        s.verbose(k.verbose);
    if (p.paraview != k.paraview)
        s.paraview(k.paraview != 0);
    if (p.gridfile != k.gridfile) {
        const bool wantWrite = k.gridfile == 1 || k.gridfile == 5;
        const bool wantLoad  = k.gridfile == 2 || k.gridfile == 3 || k.gridfile == 4 || k.gridfile == 6;
        const bool hadWrite  = p.gridfile == 1 || p.gridfile == 5;
        const bool hadLoad   = p.gridfile == 2 || p.gridfile == 3 || p.gridfile == 4 || p.gridfile == 6;
        if (wantWrite != hadWrite)
            s.write_grid_file(wantWrite);
        if (wantLoad != hadLoad)
            s.load_grid_file(wantLoad);
        if (k.gridfile == 1 || k.gridfile == 2) {
            s.file_grid_radii("solver_grid_radii.txt");
            s.file_grid_angles("solver_grid_angles.txt");
        }
        else if (k.gridfile == 6) {
            s.file_grid_radii("nonuniform_grid_radii.txt");
            s.file_grid_angles("nonuniform_grid_angles.txt");
        }
        else if (k.gridfile == 3) {
            s.file_grid_radii("no_such_radii_file.txt");
            s.file_grid_angles("no_such_angles_file.txt");
        }
    }
}

inline std::unique_ptr<GMGPolar> makeSolver(const Cfg& k)
{
    Problem p = k.problem();
    auto s    = std::make_unique<GMGPolar>(std::move(p.geo), std::move(p.coef), std::move(p.bc), std::move(p.src));
    if (k.exact)
        s->setSolution(std::move(p.exact));
    applyOptions(*s, k);
    if (k.gridfile == 6) {
        // a NON-UNIFORM grid of the configured size, loaded from files: radii with spacings cycling through
        // {1, 1.35, 0.8, 1.15, 0.9}, angles with half-circle spacings cycling through {1, 1.25, 0.85} and mirrored (antipodal pairs)
        const int nr = (1 << k.nr_exp) * (1 << k.div2) + 1;
        int nte      = k.ntheta_exp;
        if (nte < 0)
            nte = k.nr_exp + 1;
        const int nt = (1 << nte) * (1 << k.div2);
        std::vector<double> w(nr - 1), radii(nr);
        const double fr[5] = {1.0, 1.35, 0.8, 1.15, 0.9};
        double sum         = 0;
        for (int i = 0; i + 1 < nr; i++)
            sum += (w[i] = fr[i % 5]);
        radii[0] = k.R0;
        for (int i = 0; i + 1 < nr; i++)
            radii[i + 1] = radii[i] + (k.Rmax - k.R0) * w[i] / sum;
        radii[nr - 1] = k.Rmax;
        std::vector<double> angles(nt + 1), v(nt / 2);
        const double ft[3] = {1.0, 1.25, 0.85};
        sum                = 0;
        for (int j = 0; j < nt / 2; j++)
            sum += (v[j] = ft[j % 3]);
        angles[0] = 0.0;
        for (int j = 0; j < nt / 2; j++)
            angles[j + 1] = angles[j] + M_PI * v[j] / sum;
        angles[nt / 2] = M_PI;
        for (int j = 0; j < nt / 2; j++)
            angles[nt / 2 + j] = angles[j] + M_PI;
        angles[nt] = 2 * M_PI;
        FILE* fr_ = fopen("nonuniform_grid_radii.txt", "w");
        FILE* ft_ = fopen("nonuniform_grid_angles.txt", "w");
        if (!fr_ || !ft_)
            throw std::runtime_error("harness: cannot write the grid files");
        for (double x : radii)
            fprintf(fr_, "%.17g\n", x);
        for (double x : angles)
            fprintf(ft_, "%.17g\n", x);
        fclose(fr_);
        fclose(ft_);
    }
    if (k.gridfile == 2) {
        // the files to load are written by another solver object with the same options (write_grid_file), in the working directory
        Cfg kw      = k;
        kw.gridfile = 1;
        Problem pw  = kw.problem();
        GMGPolar w(std::move(pw.geo), std::move(pw.coef), std::move(pw.bc), std::move(pw.src));
        applyOptions(w, kw);
        w.setup();
    }
    return s;
}

inline double normOf(const Vector<double>& v, int type)
{
    long double s = 0, m = 0;
    for (int i = 0; i < v.size(); i++) {
        s += (long double)v[i] * v[i];
        m = std::max(m, (long double)std::fabs(v[i]));
    }
    if (type == 0)
        return (double)sqrtl(s);
    if (type == 1)
        return (double)(sqrtl(s) / sqrtl((long double)v.size()));
    return (double)m;
}

// ------------------------------------------------------------------------------------------
// independent residual of (A u = f) resp. of the extrapolated system, built from NOTHING the solver object holds
// except the coordinates of its grid: own grid copy, freshly selected input functions, own right-hand side,
// the OTHER stencil strategy's residual operator, own coarse level / injection / combination.
// ------------------------------------------------------------------------------------------
struct IndependentResidual {
    Problem p;
    PolarGrid g;
    std::unique_ptr<Hierarchy> H;
    Vector<double> f, fc;
    bool dirbc;
    int otherStrat;

    static void buildRhs(const PolarGrid& g, const Problem& p, bool dirbc, Vector<double>& f)
    {
        for (int i = 0; i < g.nr(); i++) {
            double r = g.radius(i);
            for (int j = 0; j < g.ntheta(); j++) {
                double th = g.theta(j), s = std::sin(th), c = std::cos(th);
                int k = g.index(i, j);
                if (i == g.nr() - 1)
                    f[k] = p.bc->u_D(r, th, s, c);
                else if (i == 0 && dirbc)
                    f[k] = p.bc->u_D_Interior(r, th, s, c);
                else {
                    double h1  = (i == 0) ? 2.0 * g.radius(0) : g.radius(i) - g.radius(i - 1);
                    double h2  = g.radius(i + 1) - g.radius(i);
                    int jm     = (j + g.ntheta() - 1) % g.ntheta();
                    double k1  = g.angles()[jm + 1] - g.angles()[jm];
                    double k2  = g.angles()[j + 1] - g.angles()[j];
                    double det = p.geo->dFx_dr(r, th, s, c) * p.geo->dFy_dt(r, th, s, c) -
                                 p.geo->dFx_dt(r, th, s, c) * p.geo->dFy_dr(r, th, s, c);
                    f[k] = p.src->rhs_f(r, th, s, c) * 0.25 * (h1 + h2) * (k1 + k2) * std::fabs(det);
                }
            }
        }
    }

    IndependentResidual(const GMGPolar& solver, const Cfg& k)
        : p(k.problem())
        , g(solver.grid().radii(), solver.grid().angles())
        , dirbc(k.dirbc != 0)
        , otherStrat(k.strat == 0 ? 1 : 0)
    {
        int nl = (k.extr != 0) ? 2 : 1;
        H      = std::make_unique<Hierarchy>(g, p, true, true, 1);
        f      = Vector<double>(g.numberOfNodes());
        buildRhs(H->levels[0]->grid(), p, dirbc, f);
        if (nl == 2) {
            // the coarse level is built FRESH on the coarse grid (not from the fine cache)
            PolarGrid cg = coarseningGrid(g);
            coarse       = std::make_unique<Hierarchy>(cg, p, true, true, 1);
            fc           = Vector<double>(cg.numberOfNodes());
            buildRhs(coarse->levels[0]->grid(), p, dirbc, fc);
        }
    }
    std::unique_ptr<Hierarchy> coarse;

    void residualOn(const Level& L, Vector<double>& res, const Vector<double>& rhs, const Vector<double>& u) const
    {
        if (otherStrat == 1) {
            ResidualGive R(L.grid(), L.levelCache(), *p.geo, *p.coef, dirbc, 1);
            R.computeResidual(res, rhs, u);
        }
        else {
            ResidualTake R(L.grid(), L.levelCache(), *p.geo, *p.coef, dirbc, 1);
            R.computeResidual(res, rhs, u);
        }
    }
    // returns the vector whose norm the stop test is about
    Vector<double> residual(const Vector<double>& uSolverOrder, const PolarGrid& solverGrid, bool extrapolated) const
    {
        const PolarGrid& gg = H->levels[0]->grid();
        const int N         = gg.numberOfNodes();
        // the solver's grid may use another circle/radial split: re-index
        Vector<double> u(N);
        for (int i = 0; i < gg.nr(); i++)
            for (int j = 0; j < gg.ntheta(); j++)
                u[gg.index(i, j)] = uSolverOrder[solverGrid.index(i, j)];
        Vector<double> r(N);
        residualOn(*H->levels[0], r, f, u);
        if (extrapolated) {
            const PolarGrid& cg = coarse->levels[0]->grid();
            Vector<double> uc(cg.numberOfNodes()), rc(cg.numberOfNodes());
            for (int i = 0; i < cg.nr(); i++)
                for (int j = 0; j < cg.ntheta(); j++)
                    uc[cg.index(i, j)] = u[gg.index(2 * i, 2 * j)];
            residualOn(*coarse->levels[0], rc, fc, uc);
            for (int i = 0; i < gg.nr(); i++)
                for (int j = 0; j < gg.ntheta(); j++) {
                    int k = gg.index(i, j);
                    if ((i % 2) || (j % 2))
                        r[k] = 4.0 / 3.0 * r[k];
                    else
                        r[k] = (4.0 * r[k] - rc[cg.index(i / 2, j / 2)]) / 3.0;
                }
        }
        return r;
    }
};

inline std::pair<double, double> exactErrors(const GMGPolar& s, const Cfg& k, const Vector<double>& u)
{
    Problem p          = k.problem();
    const PolarGrid& g = s.grid();
    long double sum = 0, mx = 0;
    for (int i = 0; i < g.nr(); i++)
        for (int j = 0; j < g.ntheta(); j++) {
            double th = g.theta(j);
            double e  = p.exact->exact_solution(g.radius(i), th, std::sin(th), std::cos(th)) - u[g.index(i, j)];
            sum += (long double)e * e;
            mx = std::max(mx, (long double)std::fabs(e));
        }
    return {(double)(sqrtl(sum) / sqrtl((long double)g.numberOfNodes())), (double)mx};
}

} // namespace vh
