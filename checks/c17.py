"""C17 grid numbering: all small grid shapes x split classes x unwrapped indices against a reference numbering."""
import json
import common
import enumlib

PID = "C17"
LEVEL = "model_checking"


def _build():
    common.build_lib("san")
    return common.build_harness("c17_grid", "san", ["c17_grid.cpp"])


def main(tier):
    rep = common.Reporter(PID, tier, LEVEL)
    binary = _build()
    parts = common.NCPU
    res = enumlib.run_enumerator(binary, "thorough", parts, timeout=3000)  # the full lattice takes seconds: both tiers run it
    allstats, samples = [], []
    for p, rc, out, err in res:
        st, sm, vi = enumlib.parse_lines(out)
        if rc != 0:
            enumlib.crash_report(rep, "c17", p, rc, out, err)
        allstats.append(st)
        samples += sm
        for key, what, spec in vi:
            rep.violation(key, what, {"spec": spec})
    st = enumlib.merge_stats(allstats)
    cov = {
        "states": int(st.get("grids", 0)),
        "transitions": int(st.get("queries", 0)),
        "traces_validated_against_impl": int(st.get("grids", 0)),
        "evaluations": int(st.get("grids", 0)),
        "distinct_nontrivial": max([int(x.get("distinct_shapes", 0)) for x in allstats] or [0]),
        "coarsenings": int(st.get("coarsenings", 0)),
        "rule": "nr in 2..7 (thorough 2..11) x ntheta in {2,4,6,8,10,12,16(,20,24,32)} (both wrap code paths) x "
                "{uniform, irregular antipodal} coordinates x {automatic split, below R0, at every radius, between "
                "every pair of radii, above Rmax}; every node and every unwrapped theta index in [-3ntheta-1, 3ntheta+1] "
                "is queried; each grid is coarsened repeatedly and every coarse grid re-checked; distinct = "
                "(nr, ntheta, coords, circles) shapes seen by the busiest part",
        "samples": samples[:6] or ["(none)"],
        "exhaustive": True,
    }
    return rep.finish(cov, ["reference numbering: circle section theta-major, radial section r-major (documented layout)", "built with assertions on, ASan+UBSan"])


def replay(path):
    binary = _build()
    spec = json.load(open(path))["replay"]["spec"]
    outs = []
    for _ in range(2):
        rc, out, err = common.run_probe(binary, ["replay"], stdin_text=spec + "\n")
        outs.append((rc, [l for l in out.splitlines() if l.startswith("VIOL")]))
    if outs[0] != outs[1]:
        print("replay is not deterministic; refusing to report")
        return 2
    for l in outs[0][1]:
        print(l)
    if outs[0][1] or outs[0][0] != 0:
        print("VIOLATION property=%s replay=%s" % (PID, path))
        return 1
    print("replay: property held")
    return 0
