"""C14 tridiagonal line solvers: exhaustive alphabet enumeration x solve histories (see DESIGN.md section 5, C14)."""
import json
import os
import common
import enumlib

PID = "C14"
LEVEL = "model_checking"


def _build():
    # header-only classes: no repository library needed, but rebuilt from the working tree's headers
    return common.build_harness("c14_tridiag", "san", ["c14_tridiag.cpp"], link_libs=False)


def main(tier):
    rep = common.Reporter(PID, tier, LEVEL)
    binary = _build()
    parts = common.NCPU
    res = enumlib.run_enumerator(binary, tier, parts, timeout=3000)
    allstats, samples = [], []
    for p, rc, out, err in res:
        st, sm, vi = enumlib.parse_lines(out)
        if rc != 0:
            enumlib.crash_report(rep, "c14", p, rc, out, err)
        allstats.append(st)
        samples += sm
        for key, what, spec in vi:
            rep.violation(key, what, {"spec": spec})
    st = enumlib.merge_stats(allstats)
    cov = {
        "states": int(st.get("spd", 0)),
        "transitions": int(st.get("solves", 0)),
        "traces_validated_against_impl": int(st.get("solves", 0)),
        "evaluations": int(st.get("systems", 0)),
        "distinct_nontrivial": int(st.get("distinct", 0)),
        "histories": int(st.get("histories", 0)),
        "assignment_histories": int(st.get("assignments", 0)),
        "rule": "systems = alphabet product (n<=4, quick; n<=5 thorough) + one-irregular-position patterns + "
                "second-difference+eps + D A D scalings; a state is an SPD system (long-double Cholesky), a "
                "transition one solveInPlace on the real class; distinct = distinct SPD specs",
        "samples": samples[:6] or ["(none)"],
        "worst_backward_ratio_plain": st.get("worst_ratio_plain"),
        "worst_backward_ratio_cyclic": st.get("worst_ratio_cyclic"),
        "worst_ulps_diagonal": st.get("worst_ulps_diagonal"),
        "bounds": "quick n<=16, histories<=3; thorough n<=32,100,1000, histories<=4",
        "exhaustive": True,
    }
    return rep.finish(cov, ["the dense long-double reference and the documented matrix layout "
                            "(n=2 cyclic: corner adds to the off-diagonal)"])


def replay(path):
    binary = _build()
    spec = json.load(open(path))["replay"]["spec"]
    outs = []
    for _ in range(2):
        rc, out, err = common.run_probe(binary, ["replay"], stdin_text=spec + "\n")
        outs.append((rc, [l for l in out.splitlines() if l.startswith("VIOL")]))
    if outs[0] != outs[1]:
        print("replay is not deterministic; refusing to report")
        return 2
    for l in outs[0][1]:
        print(l)
    if outs[0][1] or outs[0][0] != 0:
        print("VIOLATION property=%s replay=%s" % (PID, path))
        return 1
    print("replay: property held")
    return 0
