"""C13 a solver object can be reused: explicit enumeration of (option block, setup, solve x n) histories on ONE object,
every solve compared with a freshly constructed solver given the same options."""
import itertools
import json

import common
import gmg_lib as gl
import c01

PID = "C13"
LEVEL = "model_checking"

TUPLES = [
    "extr:0;fmg:0;strat:0;maxit:150;div2:0",                      # t0 documented defaults
    "extr:1;fmg:1;strat:1;maxit:150;div2:0",                      # t1 implicit extrapolation, FMG, give
    "extr:3;fmg:0;strat:0;maxit:150;div2:0",                      # t2 combined mode: switches smoother from residual history
    "extr:1;fmg:0;strat:0;maxit:150;div2:1",                      # t3 refinement step of convergence_order
    "extr:0;fmg:1;strat:1;maxit:0;div2:0",                        # t4 zero-iteration solve
    "extr:3;fmg:1;strat:1;maxit:3;div2:0;exact:0",                # t5 iteration-limited, no exact solution
    "extr:1;fmg:0;strat:0;maxit:150;div2:0;dirbc:1;cycle:1",      # t6 (thorough)
    "extr:3;fmg:0;strat:1;maxit:150;div2:0;maxlev:2;norm:2;pre:2", # t7 (thorough)
    # solve-time-only variations of t0 / t1: applied WITHOUT a new setup() (block count < 0)
    "extr:0;fmg:0;strat:0;maxit:150;div2:0;cycle:1;pre:2;post:2",  # t8  = t0 + other cycle / smoothing steps
    "extr:0;fmg:0;strat:0;maxit:3;div2:0;norm:2;abstol:1e-4",      # t9  = t0 + iteration limit / norm / tolerance
    "extr:1;fmg:1;strat:1;maxit:150;div2:0;cycle:2;fmg_cycle:1;fmg_it:1;reltol:1e-5",  # t10 = t1 + other cycles
    # the refinement loop of convergence_order: explicit level cap above what the coarser grid allows, F-cycle, divideBy2 growing
    "extr:1;fmg:0;strat:0;maxit:150;div2:0;maxlev:6;cycle:2",     # t11
    "extr:1;fmg:0;strat:0;maxit:150;div2:1;maxlev:6;cycle:2",     # t12
    "extr:1;fmg:1;strat:1;maxit:150;div2:0;gridfile:6;cg:0",      # t13 a user's non-uniform grid loaded from files, geometry not cached
    # tuples every solver REJECTS in setup(): the caller catches the exception, changes the options and goes on with the same object
    "extr:0;fmg:0;strat:0;maxit:150;div2:0;cc:0;cg:0",            # t14 take strategy without caches
    "extr:1;fmg:1;strat:1;maxit:150;div2:0;nr_exp:2;ntheta_exp:3",# t15 a grid that cannot be coarsened
]
ALPHABET = {"quick": [0, 1, 2, 3, 4, 5, 11, 12, 13], "thorough": [0, 1, 2, 3, 4, 5, 6, 7, 11, 12, 13, 14, 15]}
REJECTED = [14, 15]
NOSETUP = {0: [8, 9], 8: [0, 9], 9: [0, 8], 1: [10], 10: [1]}   # tuples that differ in solve-time options only


def _build():
    common.build_lib("rel")
    return common.build_harness("gmg", "rel", ["gmg.cpp"])


def base_line():
    cfg = c01.base(geom=1, prob=2, alpha=2, beta=1)
    cfg["mode"] = "hist"
    cfg.pop("indep", None)
    for i, t in enumerate(TUPLES):
        cfg["t%d" % i] = t
    return cfg


def histories(tier):
    alpha = ALPHABET["thorough" if tier == "thorough" else "quick"]
    nt = len(alpha)
    depth = 3
    out = []
    for d in range(1, depth + 1):
        for tup in itertools.product(alpha, repeat=d):
            if tier != "thorough" and d == 3 and len(set(tup)) < 2:
                continue
            for ns in itertools.product((1, 2), repeat=d):
                out.append(list(zip(tup, ns)))
    if tier == "thorough":
        # depth 4 (a hidden field that needs three earlier blocks to reach its bad value)
        for tup in itertools.product(alpha, repeat=4):
            if len(set(tup)) >= 2:
                out.append([(t, 1) for t in tup])
    if tier != "thorough":
        # a rejected block (setup() throws, the caller goes on with the same object) between / before accepted ones
        for rej in REJECTED:
            for b in alpha:
                out.append([(rej, 1), (b, 1)])
                out.append([(rej, 1), (rej, 1), (b, 2)])
                for a in alpha:
                    out.append([(a, 1), (rej, 1), (b, 1)])
    # solve-without-setup after an option change that does not need a new setup (negative count = no setup())
    for a, bs in NOSETUP.items():
        for b in bs:
            for n1 in (1, 2):
                out.append([(a, n1), (b, -1)])
                out.append([(a, n1), (b, -2)])
                for c in NOSETUP.get(b, []):
                    out.append([(a, n1), (b, -1), (c, -1)])
                if tier == "thorough":
                    for t in alpha:
                        out.append([(t, 1), (a, n1), (b, -1)])
    return out


def key_of(hist, what):
    # class of the failing history: tuple ids of the last two blocks + which observation differed
    last = hist[-2:] if len(hist) >= 2 else hist
    diff = []
    try:
        got = what.split("got(")[1].split(")fresh(")[0]
        fresh = what.split(")fresh(")[1].rstrip(")")
        g = dict(x.split("=") for x in got.split(",") if "=" in x)
        f = dict(x.split("=") for x in fresh.split(",") if "=" in x)
        diff = [k for k in ("its", "rho", "e2", "einf", "sol") if g.get(k) != f.get(k)]
    except Exception:
        pass
    return "reuse:%s:%s" % (">".join("t%d" % t for t, _ in last), "+".join(diff) or "obs")


def main(tier):
    rep = common.Reporter(PID, tier, LEVEL)
    binary = _build()
    hs = histories(tier)
    base = base_line()
    # every history twice: later blocks call every setter again (delta=0) / only the setters of the options that changed (delta=1)
    hs = [(h, dl) for h in hs for dl in ((0, 1) if len(h) > 1 else (0,))]
    lines = []
    for i, (h, dl) in enumerate(hs):
        lines.append(("h%05d" % i, gl.line_of("h%05d" % i, base, hist=",".join("%d:%d" % (t, n) for t, n in h), optdelta=dl)))
    res = gl.run_cases(binary, lines, chunk=8)
    # reference observation of each tuple: a process that has handled nothing but that tuple (one line, one process)
    nt_used = sorted({t for h, _ in hs for t, _ in h})
    canon_lines = [("k%02d" % t, gl.line_of("k%02d" % t, base, hist="%d:1" % t)) for t in nt_used]
    canon_res = gl.run_cases(binary, canon_lines, chunk=1)
    canon = {}
    for t in nt_used:
        fo = canon_res.get("k%02d" % t, {}).get("freshobs", "")
        if fo.startswith("t%d:" % t):
            canon[t] = fo.split(":", 1)[1]
    fresh_compared = 0
    states, transitions = set(), 0
    for i, (h, dl) in enumerate(hs):
        r = res.get("h%05d" % i, {"status": "crash", "kind": "missing"})
        hist_s = ",".join("%d:%d" % (t, n) for t, n in h)
        mode_s = "only changed options set again" if dl else "all options set again"
        if r.get("status") == "crash":
            rep.violation("crash:%s" % r.get("kind"), "history %s killed the solver: %s" % (hist_s, gl.crash_line(r.get("stderr"))),
                          {"history": hist_s, "tuples": TUPLES, "delta": dl})
            continue
        if r.get("status") != "ok":
            rep.violation("exception", "history %s threw: %s" % (hist_s, r.get("what")), {"history": hist_s, "tuples": TUPLES, "delta": dl})
            continue
        transitions += int(r["steps"]) + sum(2 if n > 0 else 1 for _, n in h)
        for st in r.get("trace", "").split("|"):
            if st:
                states.add(st)
        for part in r.get("freshobs", "").split("/"):
            if ":" not in part:
                continue
            tt, obs = part.split(":", 1)
            t = int(tt[1:])
            if t in canon:
                fresh_compared += 1
                if obs != canon[t]:
                    rep.violation("process-history:t%d" % t, "history [%s]: a FRESHLY constructed solver with options t%d gives (%s) in this "
                                  "process, but (%s) in a process that handled nothing else: process-global state leaks between solver "
                                  "objects" % (hist_s, t, obs, canon[t]), {"history": hist_s, "tuples": TUPLES, "kind": "process", "tuple": t, "delta": dl})
        if int(r["bad"]) >= 0:
            w = r["what"]
            rep.violation(key_of(h, w), "history [%s] (blocks tuple:solves; %s between blocks; tuples %s): a solve on the reused object differs from a "
                          "fresh object with the same options: %s" % (hist_s, mode_s, {("t%d" % t): TUPLES[t] for t, _ in h}, w),
                          {"history": hist_s, "tuples": TUPLES, "delta": dl})
    cov = {
        "states": len(states) * (len(ALPHABET["thorough" if tier == "thorough" else "quick"]) + 3),
        "transitions": transitions,
        "traces_validated_against_impl": len(hs),
        "fresh_object_observations_compared_with_fresh_process": fresh_compared,
        "evaluations": len(hs),
        "distinct_nontrivial": len(hs),
        "distinct_hidden_states": sorted(states)[:12],
        "rule": "all histories of <= %d blocks (option tuple, setup, 1 or 2 solves) over %d option tuples on one object; thorough "
                "adds all 4-block histories (at least two distinct tuples, one solve per block) "
                "(17x32 / 33x64, Shafranov, PolarR6, Zoni gyro), plus histories in which solve-time options (cycle type, smoothing "
                "steps, iteration limit, norm type, tolerances, FMG cycle) are changed and solve() is called WITHOUT a new setup(); "
                "after EVERY solve the observation (solution bitwise, iterations, "
                "reduction factor, both error figures) is compared with a freshly constructed solver; states = distinct hidden "
                "state strings (levels, residual history length, error history length, full_grid_smoothing, iterations) x tuples; "
                "transitions = setter blocks, setup() and solve() calls" % (3, len(ALPHABET["thorough" if tier == "thorough" else "quick"])),
        "samples": [",".join("%d:%d" % (t, n) for t, n in hs[0][0]), ",".join("%d:%d" % (t, n) for t, n in hs[len(hs) // 2][0]), TUPLES[2]],
        "option_application_modes": "every multi-block history runs twice: all setters called again in every block / only the setters of "
                                    "options whose value changed",
        "exhaustive": True,
    }
    return rep.finish(cov, ["input functions (geometry, coefficients, source) are fixed per object, as the API requires",
                            "error figures are read only when the solver recorded one in that object (no read of an empty history)"])


def replay(path):
    rp = json.load(open(path))["replay"]
    binary = _build()
    base = base_line()
    if rp.get("kind") == "process":
        t = rp["tuple"]
        outs = []
        for _ in range(2):
            a = gl.run_cases(binary, [("r0", gl.line_of("r0", base, hist=rp["history"], optdelta=rp.get("delta", 0)))]).get("r0", {}).get("freshobs", "")
            b = gl.run_cases(binary, [("r1", gl.line_of("r1", base, hist="%d:1" % t))]).get("r1", {}).get("freshobs", "")
            got = [p.split(":", 1)[1] for p in a.split("/") if p.startswith("t%d:" % t)]
            outs.append((got, b.split(":", 1)[1] if ":" in b else None))
        if outs[0] != outs[1]:
            print("replay is not deterministic; refusing to report")
            return 2
        print(outs[0])
        if not outs[0][0] or outs[0][0][0] != outs[0][1]:
            print("VIOLATION property=%s replay=%s" % (PID, path))
            return 1
        print("replay: property held")
        return 0
    outs = []
    for _ in range(2):
        res = gl.run_cases(binary, [("r0", gl.line_of("r0", base, hist=rp["history"], optdelta=rp.get("delta", 0)))])
        r = res.get("r0", {})
        outs.append((r.get("status"), r.get("bad"), r.get("what")))
    if outs[0] != outs[1]:
        print("replay is not deterministic; refusing to report")
        return 2
    print(outs[0])
    if outs[0][0] != "ok" or int(outs[0][1]) >= 0:
        print("VIOLATION property=%s replay=%s" % (PID, path))
        return 1
    print("replay: property held")
    return 0
