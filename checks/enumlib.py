"""Driver for the C++ enumerator harnesses that print STAT / SAMPLE / VIOL lines."""
import json
import os
import common


def run_enumerator(binary, tier, parts, extra_args=(), timeout=3000, env=None):
    def one(p):
        rc, out, err = common.run_probe(binary, ["enumerate", tier, str(p), str(parts)] + list(extra_args),
                                        timeout=timeout, env=env)
        return p, rc, out, err
    return common.pmap(one, range(parts), jobs=min(parts, common.NCPU))


def parse_lines(out):
    stats, samples, viols = {}, [], []
    for line in out.splitlines():
        if line.startswith("STAT "):
            _, k, v = line.split(None, 2)
            try:
                stats[k] = int(v)
            except ValueError:
                try:
                    stats[k] = float(v)
                except ValueError:
                    stats[k] = v
        elif line.startswith("SAMPLE "):
            samples.append(line[7:])
        elif line.startswith("VIOL "):
            parts = [s.strip() for s in line[5:].split("|", 2)]
            while len(parts) < 3:
                parts.append("")
            viols.append(tuple(parts))
    return stats, samples, viols


def merge_stats(list_of_stats, maxkeys=()):
    tot = {}
    for s in list_of_stats:
        for k, v in s.items():
            if isinstance(v, str):
                tot[k] = v
            elif k in maxkeys or k.startswith("worst") or k.startswith("max"):
                tot[k] = max(tot.get(k, v), v)
            elif k.startswith("min"):
                tot[k] = min(tot.get(k, v), v)
            else:
                tot[k] = tot.get(k, 0) + v
    return tot


def crash_report(rep, name, p, rc, out, err):
    """A probe that dies (sanitizer report, failed assertion, signal) is a violation of its own."""
    tail = (err or "")[-3000:]
    kind = "crash"
    if "AddressSanitizer" in err:
        kind = "asan"
    elif "runtime error" in err:
        kind = "ubsan"
    elif "Assertion" in err:
        kind = "assert"
    elif rc == -999:
        kind = "timeout"
    lines = (err or "").strip().splitlines()
    key_lines = [l.strip() for l in lines if "ERROR: AddressSanitizer" in l or "runtime error" in l or "Assertion" in l or
                 l.startswith("SUMMARY:") or l.startswith("HISTORY ")]
    hist = [l for l in key_lines if l.startswith("HISTORY ")]
    other = [l for l in key_lines if not l.startswith("HISTORY ")]
    shown = (other[:2] + hist[-1:]) or lines[-1:]
    rep.violation("%s:%s" % (name, kind), "probe part %s exited with %s: %s" % (p, rc, [x[:300] for x in shown]),
                  {"part": p, "rc": rc, "stderr_tail": tail})
