"""C04 coarse-grid direct solve inverts exactly the operator the residual applies (both strategies)."""
import json
import numpy as np

import common
import opalg_lib as ol
import c03

PID = "C04"
LEVEL = "model_checking"
THR_RES = 5.0e3     # residual in units of eps*(|A||x|+|b|); clean tree worst: see evidence (calibrated >= 100x)
THR_XX = 2.0e2      # |X_give - X_take| in units of eps*cond*|X|
TOL_CSR = 1e-12
THR_HOM = 1e-10      # clean tree: ~1e-16 (scaling by a power of ten only changes rounding)


def _build():
    return c03._build()


def oracle(s, r):
    viols, stats = [], {}
    Ag = ol.dense(r["A_give11"])
    At = ol.dense(r["A_take11"])
    N = Ag.shape[0]
    Aref, pattern, dirichlet, info = ol.reference_A(r)
    sc = ol.rowscale(Aref)
    I = np.eye(N)
    normA = np.abs(At).sum(axis=1).max()
    Xs = {}
    variants = sorted(k[2:] for k in r if k.startswith("X_") and not k.endswith(("_csr", "_wide_rhs", "_wide_sol", "_hom")))
    for strat in variants:
        Aother = At if strat.startswith("give") else Ag
        X = r["X_" + strat]
        Xs[strat] = X
        if not np.all(np.isfinite(X)):
            viols.append(("nonfinite:" + strat, "solveInPlace returned non-finite values", {}))
            continue
        # every unit right-hand side, judged by the OTHER strategy's residual operator; row-wise scale
        Rm = np.abs(I - Aother @ X)
        scale = ol.EPS * (np.abs(Aother) @ np.abs(X) + I)
        ratio = float((Rm / np.maximum(scale, 1e-300)).max())
        stats["worst_res_ratio"] = max(stats.get("worst_res_ratio", 0.0), ratio)
        if ratio > THR_RES:
            j = int(np.argmax((Rm / np.maximum(scale, 1e-300)).max(axis=0)))
            viols.append(("residual:" + strat, "X_%s: A_%s x - e_j is %.3g x eps(|A||x|+|b|) for unit right-hand side j=%d"
                          % (strat, "take" if strat.startswith("give") else "give", ratio, j), {"column": j}))
        # homogeneity in the right-hand side: s*e_j must give s*x_j for tiny and huge s
        hom = r["X_%s_hom" % strat].ravel()
        stats["worst_homogeneity"] = max(stats.get("worst_homogeneity", 0.0), float(hom[:3].max()))
        for scl, h in zip((1e-20, 1e-150, 1e150, 1e-300), hom):
            if scl == 1e-300:
                continue  # products with 1e-300 reach the subnormal range: reported only
            if not h <= THR_HOM:
                viols.append(("homogeneity:%s:%g" % (strat.split("_")[0], scl), "solveInPlace(%g * e_j) differs from %g * solveInPlace(e_j) by %.3g "
                              "(relative to the column): the solve is not homogeneous in the right-hand side" % (scl, scl, h), {}))
        # wide dynamic range right-hand sides
        W, WX = r["X_%s_wide_rhs" % strat], r["X_%s_wide_sol" % strat]
        if not np.all(np.isfinite(WX)):
            viols.append(("wide-nonfinite:" + strat, "non-finite solution for a wide-dynamic-range right-hand side", {}))
        else:
            Rw = np.abs(W.T - Aother @ WX.T)
            sw = ol.EPS * (np.abs(Aother) @ np.abs(WX.T) + np.abs(W.T))
            rw = float((Rw / np.maximum(sw, 1e-300)).max())
            stats["worst_wide_ratio"] = max(stats.get("worst_wide_ratio", 0.0), rw)
            if rw > THR_RES:
                viols.append(("wide-residual:" + strat, "wide-dynamic-range right-hand side: residual is %.3g x eps(|A||x|+|b|)" % rw, {}))
        # the assembled CSR matrix is the operator, entry by entry (binds the stencil-offset tables)
        M = ol.dense(r["X_%s_csr" % strat])
        D = np.abs(M - Aother) / sc[:, None]
        stats["worst_csr_rel"] = max(stats.get("worst_csr_rel", 0.0), float(D.max()))
        if D.max() > TOL_CSR:
            i, j = np.unravel_index(np.argmax(D), D.shape)
            ri, rj = c03._node(info, i), c03._node(info, j)
            viols.append(("csr:%s:%s:%s" % (strat, c03._row_class(info, ri), c03._offset(info, ri, rj)),
                          "assembled solver matrix (%s) differs from the operator at row (%d,%d) col (%d,%d): %.17g vs %.17g"
                          % (strat, ri[0], ri[1], rj[0], rj[1], M[i, j], Aother[i, j]), {"row": ri, "col": rj}))
    if len(variants) < 4:
        viols.append(("missing-variants", "expected give/take x 2 thread counts", {}))
    if "take" in Xs:
        Xt = Xs["take"]
        normX = np.abs(Xt).sum(axis=1).max()
        cond = normA * normX
        stats["max_cond"] = float(cond)
        for strat, Xg in Xs.items():
            if strat == "take":
                continue
            d = float(np.abs(Xg - Xt).max() / (ol.EPS * cond * np.abs(Xt).max()))
            stats["worst_give_take_ratio"] = max(stats.get("worst_give_take_ratio", 0.0), d)
            if d > THR_XX:
                viols.append(("variant-vs-take:" + strat, "direct solver %s differs from take by %.3g x eps*cond*|X|" % (strat, d), {}))
    stats["columns"] = len(variants) * (5 * N + 6)
    return viols, stats


def cases_for(tier):
    if tier == "thorough":
        return ol.lattice([4, 5, 6, 7, 8, 9, 11, 13, 17], [4, 8, 12, 16, 20, 24, 32], "geo,A11,X", tier,
                          cycle_offsets=(0, 1, 2), extra={"tlist": "1,3"}) + \
            ol.full_block([5, 7, 8], [4, 8, 12], "geo,A11,X", tier, extra={"tlist": "1,3"})
    # nr = 4: smaller than any grid the solver hands to its coarse solver (it never coarsens below 5 radii), but legal grids and legal
    # input for the direct-solver classes: every interior node is next to a boundary
    return ol.lattice([4, 5, 6, 7, 8, 9, 11], [4, 8, 12, 16], "geo,A11,X", tier, cycle_offsets=(0, 1), extra={"tlist": "1,3"})


def main(tier):
    rep = common.Reporter(PID, tier, LEVEL)
    binary = _build()
    cases = cases_for(tier)
    results = ol.run_cases(binary, cases, "c04", "oracle")
    tot, nontriv = {}, set()
    for s, viols, st in results:
        for k, v in st.items():
            tot[k] = max(tot.get(k, 0.0), v) if (k.startswith("worst") or k.startswith("max")) else tot.get(k, 0) + v
        nontriv.add((s["nr"], s["nt"], s["circles"], s["dirbc"], s["geom"], s["alpha"], s["beta"], s["rpat"], s["tpat"]))
        for key, what, extra in viols:
            rp = ol.replay_record(s)
            rp.update(extra)
            rep.violation(key, what + "  [case %s]" % json.dumps(ol.spec_summary(s)), rp)
    hist_cov = ol.history_block(binary, [c for c in cases if not c["id"].startswith("f")], rep, n=(12 if tier == "thorough" else 8))
    cov = {
        "full_product_block_cases": sum(1 for c in cases if c["id"].startswith("f")),
        "full_product_block_rule": ol.FULL_BLOCK_RULE,
        "states": len(results), "transitions": int(tot.get("columns", 0)),
        "traces_validated_against_impl": int(tot.get("columns", 0)),
        "evaluations": len(results), "distinct_nontrivial": len(nontriv),
        "worst_residual_ratio": tot.get("worst_res_ratio"), "worst_wide_rhs_ratio": tot.get("worst_wide_ratio"),
        "worst_give_vs_take_ratio": tot.get("worst_give_take_ratio"), "worst_csr_rel": tot.get("worst_csr_rel"),
        "max_condition_number": tot.get("max_cond"), "worst_homogeneity_deviation": tot.get("worst_homogeneity"),
        "thresholds": {"residual": THR_RES, "give_vs_take": THR_XX, "csr": TOL_CSR},
        "rule": "states = lattice cases (smallest hierarchy grid 5x4 up to 11x16 quick / 17x32 thorough, every split, both "
                "boundary modes); transitions = solveInPlace calls: every unit right-hand side, the unit right-hand sides "
                "scaled by 1e-20, 1e-150, 1e150 (homogeneity) and 6 wide-dynamic-range ones for both strategies; each solution is fed to the OTHER strategy's residual operator",
        "samples": [ol.spec_summary(s) for s, _, _ in results[:3]],
        "exhaustive": True,
    }
    cov.update(hist_cov)
    return rep.finish(cov, ["linearity: the solver's action on all unit vectors is the solver",
                            "assembly under several threads is judged in C11/C12"])


def replay(path):
    return _replay(path, "c04", PID)


def _replay(path, modname, pid):
    rp = json.load(open(path))["replay"]
    return ol.replay_cases(_build(), rp, modname, pid, path)
