#!/bin/bash
# run_all.sh <tier> [ids...]: run the registered checks one after another, one summary line each
TIER=${1:-quick}; shift
IDS=${@:-C01 C02 C03 C04 C05 C06 C07 C08 C09 C10 C11 C12 C13 C14 C15 C16 C17 C18 C19 C20}
cd "$(dirname "$0")/.."
for c in $IDS; do
  s=$(date +%s)
  out=$(python3-vt checks/run.py $c --tier $TIER 2>&1); rc=$?
  e=$(date +%s)
  echo "$c tier=$TIER exit=$rc wall=$((e-s))s $(echo "$out" | grep -E 'tier:' | tail -1)"
  echo "$out" | grep -E "^VIOLATION|^KNOWN-FINDING|BUILD-ERROR|Traceback" | head -5
done
