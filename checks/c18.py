"""C18 generated grids are valid, nested and coarsenable; files round-trip.  Parameter / fault enumeration under
ASan+UBSan, with assertions on and (the shipped configuration) with assertions compiled out."""
import json
import os
import re
import shutil
import tempfile

import common
import enumlib

PID = "C18"
LEVEL = "fault_enumeration"


def _build():
    common.build_lib("san")
    common.build_lib("sannd")
    return (common.build_harness("c18_grid", "san", ["c18_grid.cpp"]), common.build_harness("c18_grid", "sannd", ["c18_grid.cpp"]))


def parse(out):
    stats, samples, bad, crash = {}, [], [], []
    for line in out.splitlines():
        if line.startswith("STAT "):
            _, k, v = line.split(None, 2)
            stats[k] = int(v)
        elif line.startswith("SAMPLE "):
            samples.append(line[7:])
        elif line.startswith("BADCASE "):
            spec, _, what = line[8:].partition(" | ")
            bad.append((spec, what))
        elif line.startswith("CRASH "):
            spec, _, what = line[6:].partition(" | ")
            crash.append((spec, what))
    return stats, samples, bad, crash


def spec_dict(spec):
    return dict(t.split("=", 1) for t in spec.split() if "=" in t)


def crash_key(spec, what, build):
    d = spec_dict(spec)
    kind = "asan" if "AddressSanitizer" in what else ("ubsan" if "runtime error" in what else ("assert" if "Assertion" in what else "crash"))
    m = re.search(r"(\w+\.(?:cpp|h|inl)):(\d+)", what)
    site = m.group(1) if m else ""
    fn = re.search(r"(\w+)\(", what.split("Assertion")[0]) if "Assertion" in what else None
    cls = d.get("kind")
    if cls == "ctor" or cls == "levels":
        ref, R0, Rmax = float(d["ref"]), float(d["R0"]), float(d["Rmax"])
        where = "below-R0" if ref < R0 else ("above-Rmax" if ref > Rmax else ("at-R0" if ref == R0 else ("at-Rmax" if ref == Rmax else "inside")))
        return "%s:%s:aniso%s:ref-%s:%s" % (kind, cls, "0" if d.get("aniso") == "0" else "+", where, site or "-")
    return "%s:%s:%s:%s" % (kind, cls, d.get("fault"), site or "-")


def main(tier):
    rep = common.Reporter(PID, tier, LEVEL)
    bins = _build()
    tmp = tempfile.mkdtemp(prefix="c18", dir=common.BUILD)
    tot = {}
    samples = []
    try:
        for build, binary in (("assertions-on", bins[0]), ("NDEBUG", bins[1])):
            res = enumlib.run_enumerator(binary, tier, common.NCPU, extra_args=[tmp], timeout=3000)
            for p, rc, out, err in res:
                st, sm, bad, crash = parse(out)
                if rc != 0:
                    enumlib.crash_report(rep, "c18:driver", p, rc, out, err)
                for k, v in st.items():
                    tot[k + ":" + build] = tot.get(k + ":" + build, 0) + v
                samples += sm[:1]
                for spec, what in bad:
                    d = spec_dict(spec)
                    key = "invalid:%s:%s" % (d.get("kind"), what.split(":")[0].replace("BAD ", "").strip().replace(" ", "-"))
                    rep.violation(key, "%s  [%s build; %s]" % (what, build, spec), {"spec": spec, "build": build})
                for spec, what in crash:
                    rep.violation(crash_key(spec, what, build), "neither rejected with an exception nor a valid grid: %s  [%s build; %s]"
                                  % (what, build, spec), {"spec": spec, "build": build})
    finally:
        shutil.rmtree(tmp, ignore_errors=True)
    cases = sum(v for k, v in tot.items() if k.startswith("cases:"))
    cov = {
        "evaluations": cases,
        "distinct_nontrivial": max([v for k, v in tot.items() if k.startswith("distinct:")] or [0]),
        "by_build": tot,
        "rule": "nr_exp 1..5(6) x ntheta_exp {-1,2,3,6} (thorough {-1,2..7}) x anisotropic_factor 0..nr_exp+1 x divideBy2 0..1(2) x (R0,Rmax) in "
                "{(1e-5,1.3),(0.1,1),(1,2)} x refinement radius {0, R0/2, R0, R0+eps, 7(11) interior fractions, Rmax-eps, Rmax, "
                "1.5 Rmax}; setup() level count for level caps {-1,2,3}; write/load round trip; file faults (missing, empty, one "
                "value, truncated, non-numeric / negative / duplicate / nan token at each of 9 positions); each combination in a "
                "forked child under ASan+UBSan in both builds; distinct = distinct accepted outcomes seen by the busiest part",
        "samples": samples[:6] or ["none"],
        "exhaustive": True,
    }
    return rep.finish(cov, ["validity invariants written from the property statement (harness/c18_grid.cpp: validGrid)",
                            "an assertion failure is not a clean rejection: it is reported"])


def replay(path):
    rp = json.load(open(path))["replay"]
    bins = _build()
    b = bins[1] if rp.get("build") == "NDEBUG" else bins[0]
    tmp = tempfile.mkdtemp(prefix="c18", dir=common.BUILD)
    try:
        outs = []
        for _ in range(2):
            rc, out, err = common.run_probe(b, ["replay", tmp], stdin_text=rp["spec"] + "\n")
            st, sm, bad, crash = parse(out)
            outs.append((sorted(w for _, w in bad), sorted(w for _, w in crash)))
        if outs[0] != outs[1]:
            print("replay is not deterministic; refusing to report")
            return 2
        print(outs[0])
        if outs[0][0] or outs[0][1]:
            print("VIOLATION property=%s replay=%s" % (PID, path))
            return 1
        print("replay: property held")
        return 0
    finally:
        shutil.rmtree(tmp, ignore_errors=True)
