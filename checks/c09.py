"""C09 FMG: exact high-order interpolation (opalg part) and nested iteration from the coarsest level (assembled solver,
object histories)."""
import itertools
import json

import common
import gmg_lib as gl
import opalg_lib as ol
import c01
import c03
import c06
import c08

PID = "C09"
LEVEL = "model_checking"
ACC_FACTOR = 10.0   # clean tree: <= 2.9 with the documented 2 start-up cycles; without cycles the ratio is 17..8500


def _build():
    common.build_lib("san")
    common.build_lib("rel")
    return (common.build_harness("opalg", "san", ["opalg.cpp"]), common.build_harness("gmg", "rel", ["gmg.cpp"]),
            common.build_harness("gmg", "san", ["gmg.cpp"]))


def oracle(s, r):
    g = c08.grids(r)
    fi, ci = c08.node_tables(g)
    return c08.fmg_oracle(s, r, g, fi, ci, ol.dense(r["Ffmg"]))


def startup_cases(tier):
    cases = []
    shapes = [(2, dict(nr_exp=4, ntheta_exp=5, maxlev=2)), (3, dict(nr_exp=4, ntheta_exp=5, maxlev=-1)),
              (4, dict(nr_exp=5, ntheta_exp=6, maxlev=-1)), (2, dict(nr_exp=3, ntheta_exp=3, maxlev=-1))]
    if tier == "thorough":
        shapes.append((5, dict(nr_exp=6, ntheta_exp=7, maxlev=-1)))
        shapes.append((3, dict(nr_exp=5, ntheta_exp=6, maxlev=3)))
    its = (0, 1, 2)
    problems = [dict(geom=0, prob=2, alpha=1, beta=0), dict(geom=1, prob=0, alpha=2, beta=1), dict(geom=2, prob=2, alpha=3, beta=1, dirbc=1)]
    k = 0
    for (L, shape), fc, fi, extr, strat in itertools.product(shapes, (0, 1, 2), its, (0, 1, 3), (0, 1)):
        pb = problems[k % len(problems)]
        k += 1
        cfg = c01.base(extr=extr, strat=strat, **pb)
        cfg.update(shape)
        cfg.update(mode="fmgstart", fmg=1, fmg_cycle=fc, fmg_it=fi, maxit=0, seed=common.SEED, expectL=L)
        cases.append(cfg)
    return cases


def judge_start(cfg, r):
    out = []
    if r.get("status") == "crash":
        return [("startup:crash:%s" % r.get("kind"), "FMG start-up run died: %s" % gl.crash_line(r.get("stderr")))]
    if r.get("status") != "ok":
        return [("startup:exception", "setup()/solve() threw: %s" % r.get("what"))]
    L = int(r["levels"])
    tag = "L%d:it%d:e%d" % (L, cfg["fmg_it"], cfg["extr"])
    if r["finite"] != "1":
        out.append(("startup:nonfinite:" + tag, "FMG start vector contains non-finite values"))
    for h, name in (("sameB", "after a previous solve of another configuration"), ("sameC", "with every work vector pre-filled with old data"),
                    ("sameD", "on a second solve() without setup()"), ("sameE", "after a previous solve with iterations on the same object")):
        if r[h] != "1":
            out.append(("startup:history:%s:%s" % (h, tag), "the FMG start vector differs %s: it is not a function of the problem data only" % name))
    dref, nref = gl.num(r, "dref"), gl.num(r, "nref")
    if not (dref <= 1e-13 * max(nref, 1e-300)):
        out.append(("startup:nested-iteration:" + tag,
                    "start vector differs from the nested iteration (coarsest direct solve, FMG interpolation level by level, "
                    "%d cycle(s) per level) by %.3g (|u| = %.3g)" % (cfg["fmg_it"], dref, nref)))
    if cfg["fmg_it"] >= 2 and int(r["nr"]) >= 33 and L >= 3:
        e2s, e2c = gl.num(r, "e2start"), gl.num(r, "e2conv")
        es, ec = gl.num(r, "einfstart"), gl.num(r, "einfconv")
        if not (e2s <= ACC_FACTOR * e2c and es <= ACC_FACTOR * ec):
            out.append(("startup:accuracy:" + tag, "start vector error %.3g / %.3g (weighted l2 / max) is not within a factor %g of the "
                        "converged solution's %.3g / %.3g" % (e2s, es, ACC_FACTOR, e2c, ec)))
    return out


def main(tier):
    rep = common.Reporter(PID, tier, LEVEL)
    opalg, gmg_rel, gmg_san = _build()
    # part 1: interpolation matrix
    cases = c08.cases_for(tier)
    results = ol.run_cases(opalg, cases, "c09", "oracle")
    tot = {}
    for s, viols, st in results:
        for k, v in st.items():
            tot[k] = max(tot.get(k, 0.0), v) if k.startswith("worst") else tot.get(k, 0) + v
        for key, what, extra in viols:
            rp = ol.replay_record(s, part="interpolation")
            rep.violation(key, what + "  [case %s]" % json.dumps(ol.spec_summary(s)), rp)
    # part 2: start-up over object histories (release build for all; sanitizer build for a slice)
    sc = startup_cases(tier)
    lines = [("s%04d" % i, gl.line_of("s%04d" % i, cfg)) for i, cfg in enumerate(sc)]
    res = gl.run_cases(gmg_rel, lines)
    sl = [(cid, l) for (cid, l), cfg in zip(lines, sc) if cfg["nr_exp"] <= 4][::3]
    res_san = gl.run_cases(gmg_san, sl)
    distinct = set()
    worst_ratio = 0.0
    for i, cfg in enumerate(sc):
        cid = "s%04d" % i
        for rr, build in ((res.get(cid, {"status": "crash", "kind": "missing"}), "rel"),) + (((res_san[cid], "san"),) if cid in res_san else ()):
            for key, what in judge_start(cfg, rr):
                rep.violation(key, what + "  [%s build, config %s]" % (build, json.dumps(c01.short(cfg))),
                              {"part": "startup", "config": cfg, "build": build})
            if rr.get("status") == "ok":
                distinct.add(rr.get("hashA"))
                if cfg["fmg_it"] >= 2 and int(rr["nr"]) >= 33:
                    worst_ratio = max(worst_ratio, gl.num(rr, "e2start") / gl.num(rr, "e2conv"))
    # process history of the start-up: every ordered pair of representative configurations in one process vs a fresh process
    reps = []
    for i, cfg in enumerate(sc):
        key = (cfg.get("expectL"), cfg["extr"], cfg["fmg_cycle"])
        if cfg["fmg_it"] == 1 and cfg["strat"] == 1 and cfg["nr_exp"] <= 4 and key not in [k for k, _ in reps]:
            reps.append((key, ("L%s extrapolation %s FMG cycle %s" % key, gl.line_of("h", cfg))))
    reps = [r for _, r in reps][:12]
    hist_cov = gl.process_history(gmg_rel, reps, rep, "startup") if len(reps) >= 2 else {}
    cov = {
        "states": len(results) + len(sc) * 6,
        "transitions": int(tot.get("columns", 0)) + len(sc) * 12,
        "traces_validated_against_impl": int(tot.get("columns", 0)) + len(sc) * 6,
        "evaluations": len(results) + len(sc),
        "distinct_nontrivial": len(distinct) + len(results),
        "interpolation_pairs": len(results),
        "startup_configs": len(sc), "startup_histories_per_config": 5, "sanitizer_slice": len(sl),
        "worst_fmg_exactness": tot.get("worst_fmg_exactness"), "worst_fmg_rowsum": tot.get("worst_fmg_rowsum"),
        "worst_start_vs_converged_error_ratio": worst_ratio,
        "rule": "part 1: FMG interpolation extracted on every coarse unit vector for every grid pair of the C08 lattice; every "
                "row judged for coarse-value copy, constants, support <= 4x4, tensor-cubic exactness (interior) resp. cubic in "
                "theta / linear in r (next to the boundaries).  part 2: levels L in {2,3,4(,5)} x FMG cycle {V,W,F} x FMG "
                "iterations {0,1,2} x extrapolation {none, implicit, combined} x strategy, maxIterations = 0, each over 5 object "
                "histories (fresh; after another configuration; dirty work vectors; second solve without setup; after a solve "
                "with iterations) - a state is (config, history), a transition one setup()/solve() call",
        "samples": [c01.short(sc[0]), c01.short(sc[-1])],
        "exhaustive": True,
    }
    cov.update(hist_cov)
    return rep.finish(cov, ["the harness-side nested iteration uses the solver's own operators (direct solve, FMG interpolation, "
                            "cycle functions reached through -fno-access-control) in the documented order",
                            "accuracy statement (discretisation-level accuracy of the start vector) judged for the documented default of >= 2 start-up cycles per level on grids >= 33x64: error within a factor %g of the converged solution's in both norms" % ACC_FACTOR])


def replay(path):
    rp = json.load(open(path))["replay"]
    opalg, gmg_rel, gmg_san = _build()
    if rp.get("kind") == "process-history":
        return gl.replay_process_history(gmg_rel, rp, PID, path)
    if rp.get("part") == "startup":
        cfg = rp["config"]
        b = gmg_san if rp.get("build") == "san" else gmg_rel
        outs = []
        for _ in range(2):
            res = gl.run_cases(b, [("r0", gl.line_of("r0", cfg))])
            outs.append(judge_start(cfg, res.get("r0", {})))
        if [k for k, _ in outs[0]] != [k for k, _ in outs[1]]:
            print("replay is not deterministic; refusing to report")
            return 2
        for k, w in outs[0]:
            print("  [%s] %s" % (k, w))
        if outs[0]:
            print("VIOLATION property=%s replay=%s" % (PID, path))
            return 1
        print("replay: property held")
        return 0
    import c04
    return c04._replay(path, "c09", PID)
