"""C08 grid transfer: restriction = prolongation^T, optimised == reference, injection o prolongation = identity,
prolongation convex and linear-exact.  (The FMG interpolation rows used by C09 are judged by fmg_oracle below.)"""
import json
import math
import numpy as np

import common
import opalg_lib as ol
import c03
import c04
import c06

PID = "C08"
LEVEL = "model_checking"
ULP = 4.0
TOL_LIN = 2e-14      # linear reproduction, relative to Rmax resp. 2 pi


def _build():
    return c03._build()


def grids(r):
    meta = r["meta"].ravel()
    nr, nt = int(meta[0]), int(meta[1])
    cm = r["C/meta"].ravel()
    cnr, cnt = int(cm[0]), int(cm[1])
    return dict(nr=nr, nt=nt, idx=r["idx"].astype(int), radii=r["radii"].ravel(), angles=r["angles"].ravel(),
                cnr=cnr, cnt=cnt, cidx=r["C/idx"].astype(int), cradii=r["C/radii"].ravel(), cangles=r["C/angles"].ravel())


def node_tables(g):
    """per fine node: (i_r, i_theta, r, theta); per coarse node likewise"""
    Nf, Nc = g["nr"] * g["nt"], g["cnr"] * g["cnt"]
    fi = np.zeros((Nf, 2), int)
    for i in range(g["nr"]):
        for j in range(g["nt"]):
            fi[g["idx"][i, j]] = (i, j)
    ci = np.zeros((Nc, 2), int)
    for i in range(g["cnr"]):
        for j in range(g["cnt"]):
            ci[g["cidx"][i, j]] = (i, j)
    return fi, ci


def ulp_close(A, B, ulps):
    sc = np.maximum(np.abs(A), np.abs(B))
    d = np.abs(A - B)
    return float((d / np.maximum(sc * ol.EPS, 1e-300)).max()) if d.size else 0.0


def unwrap(dtheta):
    return (dtheta + math.pi) % (2.0 * math.pi) - math.pi


def linear_rows(P, g, fi, ci, kind):
    """returns per fine row the deviations of sum_j P_ij r_j - r_i and of the (locally unwrapped) angle, and the
    deviation the recorded finding F2 predicts for that row"""
    rf = g["radii"][fi[:, 0]]
    tf = g["angles"][fi[:, 1]]
    rc = g["cradii"][ci[:, 0]]
    tc = g["cangles"][ci[:, 1]]
    dev_r = P @ rc - rf * P.sum(axis=1)
    dth = unwrap(tc[None, :] - tf[:, None])
    dev_t = (P * dth).sum(axis=1)
    # F2 prediction
    nr, nt = g["nr"], g["nt"]
    h = np.diff(g["radii"])
    k = np.diff(g["angles"])
    exp_r = np.zeros(len(rf))
    exp_t = np.zeros(len(rf))
    f = 1.0 if kind == "P" else 0.5
    for n in range(len(rf)):
        i, j = fi[n]
        if i % 2 == 1:
            exp_r[n] = f * (h[i] - h[i - 1])
        if j % 2 == 1:
            exp_t[n] = f * (k[j] - k[(j - 1) % nt])
    return dev_r, dev_t, exp_r, exp_t


def oracle(s, r):
    viols, stats = [], {}
    g = grids(r)
    fi, ci = node_tables(g)
    M = {k: ol.dense(r[k]) for k in ("P", "P0", "Pex", "Pex0", "R", "R0", "Rex", "Rex0", "Jinj", "Ffmg")}
    Nf, Nc = M["P"].shape
    Rmax = g["radii"][-1]
    for k in M:
        if k + "_linx" in r:
            ld = ol.lin_deviation(M[k], r[k + "_linx"], r[k + "_liny"])
            stats["worst_linearity"] = max(stats.get("worst_linearity", 0.0), ld)
            if not ld <= ol.LIN_TOL:
                viols.append(("nonlinear:" + k, "%s applied to generic vectors of size O(1), 1e-20, 1e18 differs from its matrix times the "
                              "vector by %.3g: the operator is not linear" % (k, ld), {}))
    # adjoint pairs and optimised == reference
    for a, b, key in (("R", "P", "adjoint:standard"), ("Rex", "Pex", "adjoint:extrapolated")):
        u = ulp_close(M[a], M[b].T, ULP)
        stats["worst_adjoint_ulp"] = max(stats.get("worst_adjoint_ulp", 0.0), u)
        if u > ULP:
            D = np.abs(M[a] - M[b].T)
            c, f = np.unravel_index(np.argmax(D), D.shape)
            viols.append((key + ":" + node_class(g, fi[f]), "%s != %s^T at coarse node (%d,%d) / fine node (%d,%d): %.17g vs %.17g"
                          % (a, b, ci[c][0], ci[c][1], fi[f][0], fi[f][1], M[a][c, f], M[b][f, c]), {}))
    for a, b in (("P", "P0"), ("Pex", "Pex0"), ("R", "R0"), ("Rex", "Rex0")):
        u = ulp_close(M[a], M[b], ULP)
        stats["worst_opt_vs_ref_ulp"] = max(stats.get("worst_opt_vs_ref_ulp", 0.0), u)
        if u > ULP:
            D = np.abs(M[a] - M[b])
            i, j = np.unravel_index(np.argmax(D), D.shape)
            fn = fi[i] if a.startswith("P") else fi[j]
            viols.append(("optimised-vs-reference:%s:%s" % (a, node_class(g, fn)),
                          "optimised %s differs from the reference implementation at fine node (%d,%d): %.17g vs %.17g"
                          % (a, fn[0], fn[1], M[a][i, j], M[b][i, j]), {}))
    # injection after prolongation is the identity, exactly
    for a in ("P", "Pex", "Ffmg"):
        JP = M["Jinj"] @ M[a]
        if np.abs(JP - np.eye(Nc)).max() != 0.0:
            viols.append(("injection-prolongation:" + a, "injection o %s is not exactly the identity" % a, {}))
    # injection itself: exactly one unit entry per coarse row at the coinciding fine node
    J = M["Jinj"]
    for c in range(Nc):
        f = g["idx"][2 * ci[c][0], 2 * ci[c][1]]
        row = J[c].copy()
        row[f] -= 1.0
        if np.any(row != 0.0):
            viols.append(("injection", "injection row of coarse node (%d,%d) is not the unit row of fine node (%d,%d)"
                          % (ci[c][0], ci[c][1], 2 * ci[c][0], 2 * ci[c][1]), {}))
            break
    # convexity, constants, linear functions
    for a in ("P", "Pex"):
        P = M[a]
        if P.min() < 0.0:
            i, j = np.unravel_index(np.argmin(P), P.shape)
            viols.append(("negative-weight:%s:%s" % (a, node_class(g, fi[i])), "%s has a negative weight %.3g at fine node (%d,%d)"
                          % (a, P.min(), fi[i][0], fi[i][1]), {}))
        rs = np.abs(P.sum(axis=1) - 1.0) / ol.EPS
        stats["worst_rowsum_ulp"] = max(stats.get("worst_rowsum_ulp", 0.0), float(rs.max()))
        if rs.max() > ULP:
            i = int(np.argmax(rs))
            viols.append(("row-sum:%s:%s" % (a, node_class(g, fi[i])), "%s: weights of fine node (%d,%d) sum to %.17g"
                          % (a, fi[i][0], fi[i][1], P[i].sum()), {}))
        dev_r, dev_t, exp_r, exp_t = linear_rows(P, g, fi, ci, a)
        for (dev, exp, sc, what) in ((dev_r, exp_r, Rmax, "r"), (dev_t, exp_t, 2 * math.pi, "theta")):
            off = np.abs(dev - exp) / sc
            stats["worst_linear"] = max(stats.get("worst_linear", 0.0), float(off.max()))
            bad = np.where(off > TOL_LIN)[0]
            if len(bad):
                i = int(bad[0])
                viols.append(("linear-reproduction:%s:%s:%s" % (a, what, node_class(g, fi[i])),
                              "%s does not reproduce functions linear in %s at fine node (%d,%d): deviation %.3g (and it is "
                              "not the recorded non-midpoint weight defect, which predicts %.3g)" % (a, what, fi[i][0], fi[i][1], dev[i], exp[i]), {}))
            known = np.where((np.abs(exp) / sc > TOL_LIN) & (off <= TOL_LIN))[0]
            if len(known):
                i = int(known[0])
                stats["f2_rows"] = stats.get("f2_rows", 0) + len(known)
                viols.append(("F2:linear-reproduction:%s:non-midpoint" % a,
                              "%s is not linear-exact in %s at the %d fine nodes that are not midpoints of their coarse "
                              "neighbours (e.g. node (%d,%d): deviation %.3g = %s)" %
                              (a, what, len(known), fi[i][0], fi[i][1], dev[i], "h2-h1" if a == "P" else "(h2-h1)/2"), {}))
    stats["columns"] = 6 * Nc + 4 * Nf
    fv, fs = fmg_oracle(s, r, g, fi, ci, M["Ffmg"])
    # C08 does not judge the FMG rows (C09 does), but records that they were extracted
    stats["fmg_rows"] = Nf
    return viols, stats


def node_class(g, fn):
    i, j = int(fn[0]), int(fn[1])
    nr = g["nr"]
    rad = "r-boundary" if i in (0, nr - 1) else ("r-next-boundary" if i in (1, nr - 2) else "r-interior")
    return "%s:%s%s" % (rad, "io" if i % 2 else "ie", "jo" if j % 2 else "je")


def fmg_oracle(s, r, g, fi, ci, F):
    """C09 part 1: the FMG interpolation matrix, row by row"""
    viols, stats = [], {}
    Nf, Nc = F.shape
    nr, nt = g["nr"], g["nt"]
    rf = g["radii"][fi[:, 0]]
    tf = g["angles"][fi[:, 1]]
    rc = g["cradii"][ci[:, 0]]
    tc = g["cangles"][ci[:, 1]]
    Rmax = g["radii"][-1]
    h = np.diff(g["radii"])
    dr = (rc[None, :] - rf[:, None]) / Rmax
    dt = unwrap(tc[None, :] - tf[:, None]) / math.pi
    # coarse rows are unit rows, row sums are one
    for n in range(Nf):
        i, j = fi[n]
        if i % 2 == 0 and j % 2 == 0:
            c = g["cidx"][i // 2, j // 2]
            row = F[n].copy()
            row[c] -= 1.0
            if np.any(row != 0.0):
                viols.append(("fmg:coarse-row:" + node_class(g, fi[n]), "FMG interpolation does not return the coarse value at "
                              "coarse node (%d,%d)" % (i, j), {}))
                break
    rs = np.abs(F.sum(axis=1) - 1.0)
    stats["worst_fmg_rowsum"] = float(rs.max())
    if rs.max() > 1e-13:
        n = int(np.argmax(rs))
        viols.append(("fmg:constants:" + node_class(g, fi[n]), "FMG interpolation weights at fine node (%d,%d) sum to %.17g"
                      % (fi[n][0], fi[n][1], F[n].sum()), {}))
    # support at most 4 x 4
    nnz = (F != 0).sum(axis=1)
    if nnz.max() > 16:
        n = int(np.argmax(nnz))
        viols.append(("fmg:support", "FMG interpolation row of node (%d,%d) has %d entries (> 4x4)" % (fi[n][0], fi[n][1], nnz.max()), {}))
    # polynomial exactness
    worst = 0.0
    f2_rows = []
    for n in range(Nf):
        i, j = fi[n]
        w = F[n]
        nzc = np.nonzero(w)[0]
        interior = 2 <= i <= nr - 3
        for p in range(4):
            for q in range(4):
                if not interior and p >= 2:
                    continue  # next to / on the boundary: only linear in r is promised
                m = (dr[n, nzc] ** p) * (dt[n, nzc] ** q)
                val = float((w[nzc] * m).sum())
                target = 1.0 if (p == 0 and q == 0) else 0.0
                scale = float((np.abs(w[nzc]) * np.abs(m)).sum()) + 1e-300
                if not interior and p == 1:
                    # linear rule on the two radial lines next to the boundaries; F2 predicts (h2-h1)*[q==0 moment]
                    if i in (1, nr - 2):
                        expd = (h[i] - h[i - 1]) / Rmax if q == 0 else None
                        if q == 0:
                            off = abs(val - expd)
                            if off > 1e-11 * max(scale, 1.0):
                                viols.append(("fmg:linear-r:" + node_class(g, fi[n]),
                                              "FMG interpolation next to the boundary is not linear-exact in r at (%d,%d): %.3g "
                                              "(recorded non-midpoint defect predicts %.3g)" % (i, j, val, expd), {}))
                            elif abs(expd) > 1e-11:
                                f2_rows.append(n)
                        continue
                    elif i in (0, nr - 1):
                        # on the boundary all weights sit on the same radius
                        if abs(val) > 1e-11 * max(scale, 1.0):
                            viols.append(("fmg:boundary-r:" + node_class(g, fi[n]), "FMG boundary row (%d,%d) uses nodes off "
                                          "the boundary" % (i, j), {}))
                        continue
                err = abs(val - target) / max(scale, 1.0)
                worst = max(worst, err)
                if err > 1e-11:
                    viols.append(("fmg:exactness:%s:p%dq%d" % (node_class(g, fi[n]), p, q),
                                  "FMG interpolation is not exact for (r-r_i)^%d (theta-theta_i)^%d at fine node (%d,%d): moment "
                                  "%.3g instead of %g" % (p, q, i, j, val, target), {}))
                    break
            else:
                continue
            break
    stats["worst_fmg_exactness"] = worst
    if f2_rows:
        n = f2_rows[0]
        viols.append(("F2:fmg:linear-r:non-midpoint",
                      "FMG interpolation's linear rule next to the boundaries is not linear-exact at the %d fine nodes that are "
                      "not midpoints (e.g. node (%d,%d))" % (len(f2_rows), fi[n][0], fi[n][1]), {}))
        stats["f2_rows"] = len(f2_rows)
    stats["columns"] = Nc
    return viols, stats


def cases_for(tier, what="geo,T"):
    out = []
    nrs = [5, 7, 9, 11, 13, 17] if tier == "thorough" else [5, 7, 9, 11]
    nts = [8, 12, 16, 20, 24, 32] if tier == "thorough" else [8, 12, 16]
    base = ol.lattice(nrs, nts, what, tier, need_nt4=True, need_odd_nr=True, min_circles=2, min_radial=2,
                      cycle_offsets=((0, 1, 2) if tier == "thorough" else (0, 1)), extra={"tlist": "1"})
    out += base
    # explicit coarse splits: every class on the coarse level (thorough), two classes (quick)
    extra_cases = []
    for s in base[::(3 if tier == "thorough" else 9)]:
        cn = (s["nr"] + 1) // 2
        for cc in (range(0, cn + 1) if tier == "thorough" else (1, cn - 1)):
            line = s["line"]
            radii = [float.fromhex(x) for x in [t for t in line.split() if t.startswith("radii=")][0][6:].split(",")]
            cr = radii[::2]
            if cc <= 0:
                sp = cr[0] * 0.5
            elif cc >= cn:
                sp = cr[-1] + 1.0
            else:
                sp = 0.5 * (cr[cc - 1] + cr[cc])
            n = ol.CaseSpec(s)
            n["id"] = s["id"] + "x%d" % cc
            n["line"] = line.replace("id=" + s["id"], "id=" + n["id"]) + " csplit=" + ol.fl(sp)
            n["csplit"] = cc
            extra_cases.append(n)
    # pairs whose fine grid has more than 10 000 nodes (quick: the 41x256 pair only; thorough: both), so that every transfer runs the branch behind its
    # 'numberOfNodes() > 10 000' clause, with a team of 3 real threads; all 57 440 columns extracted like on the small pairs
    big = []
    if what == "geo,T":
        for k, (nr, nt, dirbc) in enumerate(((65, 160, 0), (41, 256, 1))):
            if tier != "thorough" and k == 0:
                continue
            radii = ol.make_radii(nr, ol.R0S[k % 3], ol.RMAXS[0], ol.R_PATTERNS[1 + k])
            angles = ol.make_angles(nt, ol.T_PATTERNS[(2 * k) % 3])
            geom, kappa, delta = ol.GEOMS[1 + k]
            cid = "b%05d" % k
            spec = ol.CaseSpec(id=cid, nr=nr, nt=nt, circles="auto", dirbc=dirbc, rpat=ol.R_PATTERNS[1 + k], tpat=ol.T_PATTERNS[(2 * k) % 3],
                               geom=geom, kappa=kappa, delta=delta, alpha=2, beta=1, R0=ol.R0S[k % 3], Rmax=ol.RMAXS[0], threads=3)
            spec["line"] = ol.case_line(cid, radii, angles, None, geom, kappa, delta, 2, 1, ol.RMAXS[0], dirbc, what,
                                        extra={"tlist": "3"}, threads=3)
            big.append(spec)
    return big + out + extra_cases


def main(tier):
    return c06.drive(PID, "c08", cases_for(tier), tier,
                     "states = fine/coarse grid pairs (nr odd 5..11 (17), ntheta in {8,12,16(,20,24,32)}, every split on the "
                     "fine level, automatic and explicit splits on the coarse level, 5 radial x 3 angular spacing patterns "
                     "cycled, both boundary modes); transitions = applications of P, P0, Pex, Pex0, R, R0, Rex, Rex0, "
                     "injection and FMG interpolation to every unit vector",
                     ["linear reproduction is judged row by row with locally unwrapped angles",
                      "rows that fail linear reproduction exactly as the recorded weight defect F2 predicts (deviation h2-h1 "
                      "resp. (h2-h1)/2 at non-midpoint nodes) are reported under the key F2:*, any other failing row is a violation"],
                     {"thresholds": {"ulp": ULP, "linear": TOL_LIN}})


def replay(path):
    return c04._replay(path, "c08", PID)
