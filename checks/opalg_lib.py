"""Python side of the operator-algebra engine: grid-shape lattice, probe driver, record reader, reference stencil."""
import math
import json
import os
import shutil
import struct
import tempfile
from concurrent.futures import ProcessPoolExecutor

import numpy as np

import common

EPS = 2.0 ** -52

# ---------------------------------------------------------------------------------------------
# lattice
# ---------------------------------------------------------------------------------------------
R_PATTERNS = ["uniform", "graded0", "gradedR", "bisected", "irregular", "alternating"]
T_PATTERNS = ["uniform", "bisected", "irregular"]

_IRR = [1.0, 0.6, 1.7, 0.8, 1.3, 0.55, 1.45, 0.9, 1.15, 0.7, 1.6, 1.05]


def make_radii(nr, R0, Rmax, pattern):
    if pattern == "uniform":
        r = [R0 + (Rmax - R0) * i / (nr - 1) for i in range(nr)]
    elif pattern in ("graded0", "gradedR"):
        q = 1.45
        w = [(q ** i - 1.0) / (q ** (nr - 1) - 1.0) for i in range(nr)]
        if pattern == "gradedR":
            w = [1.0 - x for x in reversed(w)]
        r = [R0 + (Rmax - R0) * x for x in w]
    elif pattern in ("bisected", "alternating") and nr % 2 == 1:
        nc = (nr + 1) // 2
        # "alternating": coarse cells of widths 1, 3, 1, 3, ... each halved - every fine-only node sits in the middle of a cell whose two
        # neighbour cells have EQUAL width different from its own: a symmetric but not equidistant four-point stencil
        h = [_IRR[i % len(_IRR)] for i in range(nc - 1)] if pattern == "bisected" else [1.0 if i % 2 == 0 else 3.0 for i in range(nc - 1)]
        tot = sum(h)
        c = [R0]
        for x in h:
            c.append(c[-1] + (Rmax - R0) * x / tot)
        c[-1] = Rmax
        r = []
        for i in range(nc - 1):
            r += [c[i], 0.5 * (c[i] + c[i + 1])]
        r.append(c[-1])
    else:  # irregular (also "bisected" for even nr)
        h = [_IRR[(i * 5 + 2) % len(_IRR)] for i in range(nr - 1)]
        tot = sum(h)
        r = [R0]
        for x in h:
            r.append(r[-1] + (Rmax - R0) * x / tot)
    r[0] = R0
    r[-1] = Rmax
    return r


def make_angles(nt, pattern):
    half = nt // 2
    if pattern == "bisected" and nt % 4 != 0:
        pattern = "irregular"
    if pattern == "uniform" or half < 2:
        base = [math.pi * j / half for j in range(half)]
    elif pattern == "bisected":
        nc = half // 2
        w = [0.0] + [0.22 * ((-1) ** j) * (1 + (j % 3)) / 3.0 for j in range(1, nc)]
        c = [math.pi * (j + w[j]) / nc for j in range(nc)] + [math.pi]
        base = []
        for j in range(nc):
            base += [c[j], 0.5 * (c[j] + c[j + 1])]
    else:
        w = [0.0] + [0.27 * ((-1) ** j) * (1 + (j % 4)) / 4.0 for j in range(1, half)]
        base = [math.pi * (j + w[j]) / half for j in range(half)]
    return base + [b + math.pi for b in base] + [2.0 * math.pi]


GEOMS = [  # (geom, kappa, delta)
    (0, 0.0, 0.0), (1, 0.3, 0.2), (2, 0.3, 1.4), (1, 0.1, 0.05), (2, 0.1, 1.0), (3, 0.0, 0.0),
    (1, 1.5, 0.1),   # Shafranov with kappa > 1: orientation reversing, det DF < 0 everywhere (the code takes |det DF|)
]
PROFILES = [(0, 0), (1, 0), (1, 1), (2, 0), (2, 1), (3, 0), (3, 1)]  # (alpha, beta)
AJUMP = {0: 0.5, 1: 0.66, 2: 0.4837, 3: 0.7081}
R0S = [1e-5, 1e-2, 0.1]
RMAXS = [1.3, 1.0]


def fl(x):
    return float(x).hex()


def case_line(cid, radii, angles, split, geom, kappa, delta, alpha, beta, Rmax, dirbc, what, extra=None, prob=2,
              threads=1):
    parts = ["id=%s" % cid, "radii=" + ",".join(fl(x) for x in radii), "angles=" + ",".join(fl(x) for x in angles)]
    if split is not None:
        parts.append("split=" + fl(split))
    parts += ["geom=%d" % geom, "kappa=" + fl(kappa), "delta=" + fl(delta), "alpha=%d" % alpha, "beta=%d" % beta,
              "Rmax=" + fl(Rmax), "ajump=" + fl(AJUMP[alpha] * Rmax), "dirbc=%d" % dirbc, "prob=%d" % prob,
              "threads=%d" % threads, "what=" + what]
    for k, v in (extra or {}).items():
        parts.append("%s=%s" % (k, v))
    return " ".join(parts)


def split_for_circles(radii, c):
    """explicit splitting radius that yields exactly c circles (#radii < split == c)"""
    return 0.5 * (radii[c - 1] + radii[c])


class CaseSpec(dict):
    pass


def lattice(nrs, nts, what, tier, min_circles=2, min_radial=3, need_odd_nr=False, need_nt4=False, geoms=None,
            with_culham=True, cycle_offsets=(0,), threads_cycle=(1,), extra=None, full_product=False, auto_min_nr=0, id_prefix="c"):
    """Structural dimensions (nr, ntheta, split class, boundary) in full product; spacing / geometry / profile / R0 /
    Rmax cycled with co-prime strides so that every value meets every structural class (pairwise), or the full
    product when full_product is set."""
    cases = []
    k = 0
    geoms = geoms or (GEOMS if with_culham else GEOMS[:5])
    for off in cycle_offsets:
        for nr in nrs:
            if need_odd_nr and nr % 2 == 0:
                continue
            for nt in nts:
                if need_nt4 and nt % 4 != 0:
                    continue
                splits = ([None] if nr >= auto_min_nr else []) + [c for c in range(min_circles, nr - min_radial + 1)]
                for sp in splits:
                    for dirbc in (0, 1):
                        combos = []
                        if full_product:
                            for rp in R_PATTERNS:
                                for tp in T_PATTERNS:
                                    for gi in range(len(geoms)):
                                        combos.append((rp, tp, gi, (k + gi) % 7, (k + gi) % 3, (k + gi) % 2))
                        else:
                            kk = k + off * 7
                            combos.append((R_PATTERNS[kk % len(R_PATTERNS)], T_PATTERNS[(kk // 2) % 3], kk % len(geoms),
                                           (kk * 3 + 1) % 7, (kk // 3) % 3, (kk // 5) % 2))
                        for (rp, tp, gi, pi, r0i, rmi) in combos:
                            geom, kappa, delta = geoms[gi]
                            Rmax = RMAXS[rmi]
                            if geom == 3:
                                Rmax = 1.3  # Culham tabulates its mapping for the documented Rmax
                            R0 = R0S[r0i]
                            if dirbc == 0 and False:
                                pass
                            alpha, beta = PROFILES[pi]
                            if geom == 3:
                                alpha, beta = 3, 1  # the only profile shipped for the Culham geometry
                            radii = make_radii(nr, R0, Rmax, rp)
                            angles = make_angles(nt, tp)
                            split = None if sp is None else split_for_circles(radii, sp)
                            cid = "%s%05d" % (id_prefix, len(cases))
                            thr = threads_cycle[k % len(threads_cycle)]
                            spec = CaseSpec(id=cid, nr=nr, nt=nt, circles=("auto" if sp is None else sp), dirbc=dirbc,
                                            rpat=rp, tpat=tp, geom=geom, kappa=kappa, delta=delta, alpha=alpha,
                                            beta=beta, R0=R0, Rmax=Rmax, threads=thr)
                            spec["line"] = case_line(cid, radii, angles, split, geom, kappa, delta, alpha, beta, Rmax,
                                                     dirbc, what, extra=extra, threads=thr)
                            cases.append(spec)
                        k += 1
    return cases


FULL_BLOCK_RULE = ("thorough tier only: on the structural lattice nr {5,7,8} (C07: {7,9}) x ntheta {4,8,12} x every split class x "
                   "interior boundary, the full product of 6 radial spacing patterns x 3 angular patterns x 7 geometries instead of the "
                   "pairwise cycling of the main lattice (case ids f*)")


def full_block(nrs, nts, what, tier, **kw):
    """thorough tiers: on a small structural lattice, the full product spacing pattern x angle pattern x geometry
    (6 x 3 x 7) for every structural class (nr, ntheta, split class, boundary) instead of the pairwise cycling"""
    return lattice(nrs, nts, what, tier, full_product=True, id_prefix="f", **kw)


def spec_summary(s):
    return {k: s[k] for k in ("nr", "nt", "circles", "dirbc", "rpat", "tpat", "geom", "kappa", "delta", "alpha", "beta",
                              "R0", "Rmax", "threads") if k in s}


def case_key(s):
    """stable class of a case for known-finding keys: structural class only"""
    return "nr%s:nt%s:C%s:bc%s" % (s["nr"], s["nt"], s["circles"], s["dirbc"])


# ---------------------------------------------------------------------------------------------
# record reader
# ---------------------------------------------------------------------------------------------
def read_records(path):
    out = {}
    with open(path, "rb") as f:
        data = f.read()
    pos = 0
    n = len(data)
    while pos + 4 <= n:
        (ln,) = struct.unpack_from("<I", data, pos)
        pos += 4
        name = data[pos:pos + ln].decode()
        pos += ln
        rows, cols = struct.unpack_from("<II", data, pos)
        pos += 8
        cnt = rows * cols
        arr = np.frombuffer(data, dtype="<f8", count=cnt, offset=pos).reshape(rows, cols)
        pos += 8 * cnt
        if name.startswith("txt:"):
            out[name[4:]] = bytes(int(x) for x in arr.ravel()).decode(errors="replace")
        else:
            out[name] = arr
    return out


def group_by_case(recs):
    g = {}
    for name, v in recs.items():
        cid, _, rest = name.partition("/")
        g.setdefault(cid, {})[rest] = v
    return g


def dense(trip):
    rows, cols = int(trip[0, 0]), int(trip[0, 1])
    M = np.zeros((rows, cols))
    t = trip[1:]
    if len(t):
        np.add.at(M, (t[:, 0].astype(int), t[:, 1].astype(int)), t[:, 2])
    return M


# ---------------------------------------------------------------------------------------------
# probe driver: chunks of cases -> worker processes; the oracle runs inside the worker
# ---------------------------------------------------------------------------------------------
def _worker(args):
    binary, chunk, oracle_mod, oracle_fn, tmpdir, wi, timeout = args
    import importlib
    mod = importlib.import_module(oracle_mod)
    fn = getattr(mod, oracle_fn)
    outp = os.path.join(tmpdir, "out%d.bin" % wi)
    text = "\n".join(s["line"] for s in chunk) + "\n"
    rc, so, se = common.run_probe(binary, [outp], stdin_text=text, timeout=timeout)
    results = []
    recs = {}
    try:
        recs = group_by_case(read_records(outp)) if os.path.exists(outp) else {}
    except Exception as e:  # truncated file after a crash
        recs = {}
        se += "\n[reader: %s]" % e
    finally:
        if os.path.exists(outp):
            os.unlink(outp)
    crashed_on = None
    for s in chunk:
        r = recs.get(s["id"])
        if r is None or "done" not in r:
            if crashed_on is None and rc != 0:
                crashed_on = s
                results.append((s, [("crash:" + _crash_kind(se, rc),
                                     "probe died on this case (exit %s): %s" % (rc, _tail(se)), {})], {}))
            elif r is not None and "exception" in r:
                results.append((s, [("exception", "operator construction threw: %s" % r["exception"], {})], {}))
            else:
                results.append((s, [("skipped-after-crash", "not evaluated: probe died earlier in this chunk", {})], {}))
            continue
        if "exception" in r:
            results.append((s, [("exception", "operator construction threw: %s" % r["exception"], {})], {}))
            continue
        try:
            viols, stats = fn(s, r)
        except Exception as e:
            import traceback
            viols, stats = [("oracle-error", "oracle raised %s: %s" % (type(e).__name__, traceback.format_exc()[-600:]), {})], {}
        results.append((s, viols, stats))
    return results


def _tail(se):
    lines = [l for l in (se or "").strip().splitlines() if l.strip()]
    for l in lines:
        if "ERROR: AddressSanitizer" in l or "runtime error" in l or "Assertion" in l:
            return l.strip()[:300]
    return (lines[-1] if lines else "")[:300]


def _crash_kind(se, rc):
    if "AddressSanitizer" in se:
        return "asan"
    if "runtime error" in se:
        return "ubsan"
    if "Assertion" in se:
        return "assert"
    if rc == -999:
        return "timeout"
    return "signal"


def run_cases(binary, cases, oracle_mod, oracle_fn, chunk_size=None, timeout=900):
    """returns list of (spec, violations, stats). Chunks that crash are re-run case by case so that a crash is
    attributed to its own case and the remaining cases are still evaluated."""
    tmpdir = tempfile.mkdtemp(prefix="opalg", dir=os.path.join(common.BUILD))
    try:
        n = len(cases)
        cs = chunk_size or max(1, min(24, (n + common.NCPU * 3 - 1) // (common.NCPU * 3)))
        chunks = [cases[i:i + cs] for i in range(0, n, cs)]
        # the cases of one chunk go through ONE probe process in order: process-global state (function-local statics,
        # lazily built tables) left by an earlier case is part of what is explored, and a replay must be able to rebuild it
        for ch in chunks:
            for j, sp in enumerate(ch):
                sp["prefix"] = [c["line"] for c in ch[:j]]
        args = [(binary, ch, oracle_mod, oracle_fn, tmpdir, i, timeout) for i, ch in enumerate(chunks)]
        results = []
        with ProcessPoolExecutor(max_workers=common.NCPU) as ex:
            for res in ex.map(_worker, args):
                results += res
        # second pass for cases that were skipped behind a crash
        redo = [s for (s, v, st) in results if v and v[0][0] == "skipped-after-crash"]
        if redo:
            results = [x for x in results if not (x[1] and x[1][0][0] == "skipped-after-crash")]
            args = [(binary, [s], oracle_mod, oracle_fn, tmpdir, 100000 + i, timeout) for i, s in enumerate(redo)]
            with ProcessPoolExecutor(max_workers=common.NCPU) as ex:
                for res in ex.map(_worker, args):
                    results += res
        return results
    finally:
        shutil.rmtree(tmpdir, ignore_errors=True)


# ---------------------------------------------------------------------------------------------
# process-history block: every ordered pair (a, b) of representative cases in ONE probe process; the records of b must be
# bit-identical to those of b in a fresh process.  Decides "the operator of a grid does not depend on which grids the
# process has handled before" (function-local statics, lazily initialised tables, thread-count globals) for every oracle
# at once, because the comparison is on the raw records.
# ---------------------------------------------------------------------------------------------
def run_raw(binary, lines, timeout=900):
    tmpdir = tempfile.mkdtemp(prefix="opraw", dir=os.path.join(common.BUILD))
    try:
        outp = os.path.join(tmpdir, "out.bin")
        rc, so, se = common.run_probe(binary, [outp], stdin_text="\n".join(lines) + "\n", timeout=timeout)
        recs = group_by_case(read_records(outp)) if os.path.exists(outp) else {}
        return rc, recs, se
    finally:
        shutil.rmtree(tmpdir, ignore_errors=True)


def history_representatives(cases, n):
    """representative cases: the first case of each (ntheta, boundary) class, radial sizes alternating, n at most"""
    reps, seen = [], set()
    nts = sorted({c["nt"] for c in cases})
    nrs = sorted({c["nr"] for c in cases})
    k = 0
    for nt in nts:
        for dirbc in (0, 1):
            want_nr = nrs[k % len(nrs)]
            k += 1
            cand = [c for c in cases if c["nt"] == nt and c["dirbc"] == dirbc and c["nr"] == want_nr] or \
                   [c for c in cases if c["nt"] == nt and c["dirbc"] == dirbc]
            if cand and (nt, dirbc) not in seen:
                seen.add((nt, dirbc))
                reps.append(cand[len(cand) // 2])
    return reps[:n]


def _relabel(line, new_id):
    old = line.split()[0]
    return line.replace(old, "id=" + new_id, 1)


def _records_differ(ra, rb):
    diff = []
    for k in sorted(set(ra) | set(rb)):
        if k not in ra or k not in rb:
            diff.append(k + " (missing)")
        else:
            a, b = np.asarray(ra[k]), np.asarray(rb[k])
            if a.shape != b.shape or a.tobytes() != b.tobytes():
                diff.append(k)
    return diff


def _history_pair(args):
    binary, la, lb = args
    lines = ([_relabel(la, "ha")] if la is not None else []) + [_relabel(lb, "hb")]
    rc, recs, se = run_raw(binary, lines)
    return rc, recs.get("hb"), _tail(se)


def history_block(binary, cases, rep, n=8):
    """returns coverage dict; reports violations through rep"""
    reps = history_representatives(cases, n)
    jobs = [(binary, None, b["line"]) for b in reps] + [(binary, a["line"], b["line"]) for a in reps for b in reps if a is not b]
    with ProcessPoolExecutor(max_workers=common.NCPU) as ex:
        outs = list(ex.map(_history_pair, jobs))
    fresh = {b["id"]: outs[i] for i, b in enumerate(reps)}
    pairs = [(a, b) for a in reps for b in reps if a is not b]
    bad = 0
    for (a, b), (rc, rec, tail) in zip(pairs, outs[len(reps):]):
        frc, frec, ftail = fresh[b["id"]]
        if frec is None or "done" not in frec:
            continue   # the case itself fails in a fresh process: reported by the main lattice
        rp = {"kind": "history", "case": b["line"], "process_prefix": [a["line"]], "summary": spec_summary(b)}
        if rec is None or "done" not in rec:
            bad += 1
            rep.violation("process-history:crash", "case %s dies or throws when the same process handled %s before it (exit %s: %s); "
                          "alone it runs" % (json.dumps(spec_summary(b)), json.dumps(spec_summary(a)), rc, tail), rp)
            continue
        diff = _records_differ(frec, rec)
        if diff:
            bad += 1
            names = sorted({d.split("_T")[0].rstrip("0123456789") for d in diff})
            rep.violation("process-history:%s" % names[0], "the records %s of case %s differ bit-wise from a fresh process when the same "
                          "process handled case %s before it" % (diff[:6], json.dumps(spec_summary(b)), json.dumps(spec_summary(a))), rp)
    return {"process_history_representatives": len(reps), "process_history_ordered_pairs": len(pairs),
            "process_history_pairs_differing": bad,
            "process_history_rule": "every ordered pair (a, b) of the representative cases (one per ntheta x boundary class) runs in one "
                                    "probe process; all records of b compared bit for bit with b alone in a fresh process"}


def replay_record(s, **more):
    """what a violation of case s needs to be replayed: its own line, and the lines the same probe process ran before it"""
    rp = {"case": s["line"], "summary": spec_summary(s), "process_prefix": list(s.get("prefix", []))}
    rp.update(more)
    return rp


def _spec_of_line(line, summary=None):
    spec = CaseSpec(summary or {})
    spec["id"] = line.split()[0].split("=")[1]
    spec["line"] = line
    for k in ("nr", "nt", "circles", "dirbc", "geom", "alpha", "beta", "rpat", "tpat"):
        spec.setdefault(k, "?")
    return spec


def replay_cases(binary, rp, oracle_mod, pid, path):
    """Replays one recorded case twice in a fresh process; if the violation does not show there, once more behind the
    cases that the same process had run before it (process-global state)."""
    if rp.get("kind") == "history":
        outs = []
        for _ in range(2):
            f = _history_pair((binary, None, rp["case"]))
            h = _history_pair((binary, rp["process_prefix"][0], rp["case"]))
            if f[1] is None:
                print("replay: the case does not run alone; see the main lattice")
                return 2
            outs.append(["crash"] if h[1] is None or "done" not in h[1] else _records_differ(f[1], h[1]))
        if outs[0] != outs[1]:
            print("replay is not deterministic; refusing to report")
            return 2
        if outs[0]:
            print("records differing from the fresh process: %s" % outs[0][:10])
            print("VIOLATION property=%s replay=%s" % (pid, path))
            return 1
        print("replay: property held")
        return 0
    spec = _spec_of_line(rp["case"], rp.get("summary"))

    def once(prefix):
        specs = [_spec_of_line(l) for l in prefix] + [spec]
        for i, sp in enumerate(specs[:-1]):
            sp["id"] = sp["id"]
        res = run_cases(binary, specs, oracle_mod, "oracle", chunk_size=len(specs))
        return sorted((k, w) for sp, v, _ in res if sp["id"] == spec["id"] and sp["line"] == spec["line"] for (k, w, _) in v)

    for prefix, label in (([], "fresh process"), (rp.get("process_prefix") or [], "behind the %d earlier cases of its process" %
                                                   len(rp.get("process_prefix") or []))):
        if prefix == [] and label != "fresh process":
            break
        outs = [once(prefix), once(prefix)]
        if [k for k, _ in outs[0]] != [k for k, _ in outs[1]]:
            print("replay is not deterministic; refusing to report")
            return 2
        if outs[0]:
            print("replayed in a %s:" % label)
            for k, w in outs[0]:
                print("  [%s] %s" % (k, w))
            print("VIOLATION property=%s replay=%s" % (pid, path))
            return 1
    print("replay: property held")
    return 0


# ---------------------------------------------------------------------------------------------
# reference stencil (documented 9-point / 7-point scheme), assembled densely from raw node data
# ---------------------------------------------------------------------------------------------
def node_coeffs(J, alpha_node):
    Jrr, Jtr, Jrt, Jtt = J[:, 0], J[:, 1], J[:, 2], J[:, 3]
    det = Jrr * Jtt - Jrt * Jtr
    ad = np.abs(det)
    arr = 0.5 * alpha_node * (Jtt * Jtt + Jrt * Jrt) / ad
    att = 0.5 * alpha_node * (Jtr * Jtr + Jrr * Jrr) / ad
    art = -alpha_node * (Jtt * Jtr + Jrt * Jrr) / ad
    return arr, att, art, det


def reference_A(rec, prefix=""):
    meta = rec[prefix + "meta"].ravel()
    nr, nt, dirbc = int(meta[0]), int(meta[1]), int(meta[4]) != 0
    radii = rec[prefix + "radii"].ravel()
    angles = rec[prefix + "angles"].ravel()
    idx = rec[prefix + "idx"].astype(int)
    J = rec[prefix + "J"]
    ab = rec[prefix + "ab"]
    N = nr * nt
    alpha_node = np.zeros(N)
    for i in range(nr):
        alpha_node[idx[i, :]] = ab[i, 0]
    arr, att, art, det = node_coeffs(J, alpha_node)
    A = np.zeros((N, N))
    pattern = np.zeros((N, N), dtype=bool)
    dirichlet = np.zeros(N, dtype=bool)

    def kk(j):
        return angles[(j % nt) + 1] - angles[j % nt]

    for i in range(nr):
        for j in range(nt):
            c = idx[i, j]
            if i == nr - 1 or (i == 0 and dirbc):
                A[c, c] = 1.0
                pattern[c, c] = True
                dirichlet[c] = True
                continue
            k1, k2 = kk(j - 1), kk(j)
            h2 = radii[i + 1] - radii[i]
            if i == 0:
                h1 = 2.0 * radii[0]
                L = idx[0, (j + nt // 2) % nt]
            else:
                h1 = radii[i] - radii[i - 1]
                L = idx[i - 1, j]
            R = idx[i + 1, j]
            B = idx[i, (j - 1) % nt]
            T = idx[i, (j + 1) % nt]
            c1, c2 = 0.5 * (k1 + k2) / h1, 0.5 * (k1 + k2) / h2
            c3, c4 = 0.5 * (h1 + h2) / k1, 0.5 * (h1 + h2) / k2
            eL = -c1 * (arr[c] + arr[L])
            eR = -c2 * (arr[c] + arr[R])
            eB = -c3 * (att[c] + att[B])
            eT = -c4 * (att[c] + att[T])
            for (n_, v) in ((L, eL), (R, eR), (B, eB), (T, eT)):
                A[c, n_] += v
                pattern[c, n_] = True
            BRn = idx[i + 1, (j - 1) % nt]
            TRn = idx[i + 1, (j + 1) % nt]
            A[c, BRn] += 0.25 * (art[R] + art[B])
            A[c, TRn] += -0.25 * (art[R] + art[T])
            pattern[c, BRn] = pattern[c, TRn] = True
            if i > 0:
                BLn = idx[i - 1, (j - 1) % nt]
                TLn = idx[i - 1, (j + 1) % nt]
                A[c, BLn] += -0.25 * (art[L] + art[B])
                A[c, TLn] += 0.25 * (art[L] + art[T])
                pattern[c, BLn] = pattern[c, TLn] = True
            A[c, c] += 0.25 * (h1 + h2) * (k1 + k2) * ab[i, 1] * abs(det[c]) - (eL + eR + eB + eT)
            pattern[c, c] = True
    return A, pattern, dirichlet, dict(nr=nr, nt=nt, idx=idx, radii=radii, angles=angles, dirbc=dirbc,
                                       circles=int(meta[2]), arr=arr, att=att, art=art, det=det)


def rowscale(A):
    return np.maximum(np.abs(A).max(axis=1), 1e-300)


# ---------------------------------------------------------------------------------------------
# linearity probes (see harness/opalg.cpp: linProbe)
# ---------------------------------------------------------------------------------------------
LIN_TOL = 1e-10


def lin_deviation(M, X, Y, M2=None, X2=None):
    """max over the three probe vectors of |Y_k - M X_k (- M2 X2_k)|_inf relative to | |M||X_k| (+|M2||X2_k|) |_inf"""
    worst = 0.0
    for k in range(X.shape[0]):
        pred = M @ X[k]
        scale = np.abs(M) @ np.abs(X[k])
        if M2 is not None:
            pred = pred + M2 @ X2[k]
            scale = scale + np.abs(M2) @ np.abs(X2[k])
        if not np.all(np.isfinite(Y[k])):
            return float("inf")
        den = float(scale.max()) + 1e-300
        worst = max(worst, float(np.abs(Y[k] - pred).max()) / den)
    return worst
