"""C20 every option combination is either rejected cleanly or runs without UB; statistics are well defined.
Deviation-bounded enumeration of the option lattice through both entry points, under ASan+UBSan (assertions on and
NDEBUG), with stack/heap fill patterns and a valgrind slice for uninitialised reads."""
import itertools
import json
import os
import re
import shutil
import subprocess
import tempfile

import common
import gmg_lib as gl
import c01

PID = "C20"
LEVEL = "fault_enumeration"

ALPHABET = {
    "nr_exp": [2, 3, 4, 5], "ntheta_exp": [-1, 2, 3, 4, 5, 6], "aniso": [0, 1, 2, 3, 4, 5], "div2": [0, 1], "R0": [1e-5, 0.1], "Rmax": [1.3, 1.0, 2.5], "dirbc": [0, 1],
    "fmg": [0, 1], "fmg_it": [-1, 0, 1, 2, 3], "fmg_cycle": [0, 1, 2], "extr": [0, 1, 2, 3], "maxlev": [-1, 1, 2, 3, 10], "pre": [-1, 0, 1, 2],
    "post": [0, 1, 2], "cycle": [0, 1, 2], "maxit": [-1, 0, 1, 2, 150], "norm": [0, 1, 2], "abstol": [-1.0, 0.0, 1e-8, 1e-3],
    "reltol": [-1.0, 0.0, 1e-8, 1e-3], "threads": [1, 2, 4, 16], "tfactor": [1.0, 0.5, 0.1], "strat": [0, 1], "cc": [0, 1], "cg": [0, 1],
    "exact": [0, 1], "verbose": [0, 1, 2], "paraview": [0, 1], "gridfile": [0, 1, 2, 3, 4, 5, 6], "ajump": [0.0, 0.858], "problem": ["g0p0a1b0", "g1p2a2b1", "g2p1a3b0", "g3p2a3b1", "g2p3a3b1", "g0p2a0b0"],
}
PAIRS = [dict(abstol=-1.0, reltol=-1.0), dict(abstol=-1.0, reltol=-1.0, maxit=3), dict(strat=0, cc=0, cg=0), dict(strat=0, cc=0), dict(strat=0, cg=0),
         dict(pre=0, post=0), dict(maxit=0, exact=1), dict(maxit=0, fmg=1), dict(aniso=2, ajump=0.0), dict(aniso=1, ajump=0.858),
         dict(maxlev=2, fmg=1, extr=1), dict(nr_exp=3, ntheta_exp=3), dict(nr_exp=3, ntheta_exp=3, extr=1, fmg=1), dict(nr_exp=2, ntheta_exp=3),
         dict(nr_exp=3, ntheta_exp=2), dict(abstol=-1.0, reltol=-1.0, maxit=0), dict(threads=16, tfactor=0.1), dict(maxit=1, exact=1),
         dict(abstol=-1.0, reltol=-1.0, extr=3, maxit=5), dict(verbose=1, extr=3), dict(verbose=2, maxit=0), dict(verbose=1, exact=0),
         dict(verbose=2, fmg=1, extr=1), dict(verbose=1, abstol=-1.0, reltol=-1.0), dict(paraview=1, exact=0), dict(paraview=1, maxit=0), dict(paraview=1, maxlev=2, fmg=1), dict(gridfile=2, aniso=2), dict(nr_exp=2, aniso=2), dict(nr_exp=2, aniso=1), dict(nr_exp=5, aniso=5), dict(nr_exp=3, aniso=3, ajump=0.3), dict(gridfile=2, div2=1), dict(gridfile=1, paraview=1)]
BASES = [
    dict(nr_exp=4, ntheta_exp=-1),
    dict(nr_exp=3, ntheta_exp=3, strat=1, extr=1, fmg=1, fmg_it=1, problem="g1p2a2b1"),
    dict(nr_exp=4, ntheta_exp=5, strat=0, extr=3, threads=4, dirbc=1, problem="g2p1a3b0", cycle=1),
]
CLI_NAMES = {"nr_exp": "nr_exp", "ntheta_exp": "ntheta_exp", "aniso": "anisotropic_factor", "div2": "divideBy2", "R0": "R0", "dirbc": "DirBC_Interior",
             "fmg": "FMG", "fmg_it": "FMG_iterations", "fmg_cycle": "FMG_cycle", "extr": "extrapolation", "maxlev": "maxLevels",
             "pre": "preSmoothingSteps", "post": "postSmoothingSteps", "cycle": "multigridCycle", "maxit": "maxIterations", "norm": "residualNormType",
             "abstol": "absoluteTolerance", "reltol": "relativeTolerance", "threads": "maxOpenMPThreads", "tfactor": "threadReductionFactor",
             "strat": "stencilDistributionMethod", "cc": "cacheDensityProfileCoefficients", "cg": "cacheDomainGeometry", "ajump": "alpha_jump",
             "verbose": "verbose", "paraview": "paraview", "geom": "geometry", "prob": "problem", "alpha": "alpha_coeff", "beta": "beta_coeff", "kappa": "kappa_eps", "delta": "delta_e", "Rmax": "Rmax"}
CLI_INVALID = [("extrapolation", "7"), ("extrapolation", "-1"), ("FMG_cycle", "3"), ("multigridCycle", "5"), ("residualNormType", "3"),
               ("stencilDistributionMethod", "2"), ("geometry", "4"), ("problem", "9"), ("alpha_coeff", "4"), ("beta_coeff", "2"),
               ("DirBC_Interior", "2"), ("FMG", "3"), ("nr_exp", "abc"), ("maxIterations", ""), ("bogusOption", "1"), ("write_grid_file", "2")]


def _build():
    common.build_lib("san", with_exe=True)
    common.build_lib("sannd", with_exe=True)
    common.build_lib("rel")
    return dict(san=common.build_harness("gmg", "san", ["gmg.cpp"]), sannd=common.build_harness("gmg", "sannd", ["gmg.cpp"]),
                rel=common.build_harness("gmg", "rel", ["gmg.cpp"]), exe_san=os.path.join(common.BUILD, "san", "gmgpolar"),
                exe_sannd=os.path.join(common.BUILD, "sannd", "gmgpolar"))


def expand(cfgd):
    d = dict(cfgd)
    pr = d.pop("problem", "g0p0a1b0")
    m = re.match(r"g(\d)p(\d)a(\d)b(\d)", pr)
    geom, prob, alpha, beta = (int(x) for x in m.groups())
    kd = {0: (0.0, 0.0), 1: (0.3, 0.2), 2: (0.3, 1.4), 3: (0.0, 0.0)}[geom]
    cfg = dict(mode="opt", geom=geom, prob=prob, alpha=alpha, beta=beta, Rmax=1.3, R0=1e-5, kappa=kd[0], delta=kd[1], ajump=0.858, nr_exp=4,
               ntheta_exp=-1, aniso=0, div2=0, dirbc=0, fmg=0, fmg_it=2, fmg_cycle=0, extr=0, maxlev=-1, pre=1, post=1, cycle=0, maxit=150,
               norm=0, abstol=1e-8, reltol=1e-8, threads=1, strat=0, cc=1, cg=1, exact=1, tfactor=1.0)
    cfg.update(d)
    return cfg


def configs(tier):
    out, seen = [], set()

    def add(c):
        k = json.dumps(c, sort_keys=True)
        if k not in seen:
            seen.add(k)
            out.append(c)
    for base in BASES:
        add(dict(base))
        singles = []
        for opt, vals in ALPHABET.items():
            for v in vals:
                if base.get(opt, expand({}).get(opt) if opt != "problem" else "g0p0a1b0") == v:
                    continue
                singles.append({opt: v})
        for s in singles:
            c = dict(base)
            c.update(s)
            add(c)
        for p in PAIRS:
            c = dict(base)
            c.update(p)
            add(c)
        if tier == "thorough":
            for a, b in itertools.combinations(singles, 2):
                if set(a) & set(b):
                    continue
                c = dict(base)
                c.update(a)
                c.update(b)
                add(c)
    return out


def in_c01_set(cfg):
    return cfg["pre"] >= 1 and cfg["post"] >= 1 and cfg["geom"] != 3 and cfg["prob"] != 3 and cfg["maxit"] >= 150 and \
        (cfg["abstol"] > 0 or cfg["reltol"] > 0) and cfg["extr"] != 2


def judge_api(cfg, r, build):
    if r.get("status") == "crash":
        kind = r.get("kind")
        line = gl.crash_line(r.get("stderr"))
        site = re.search(r"(\w+\.(?:cpp|h|inl)):\d+", line)
        fn = re.search(r"in (\S+)", line)
        return [("%s:%s" % (kind, site.group(1) if site else "-"), "neither rejected nor completed: %s" % line)]
    if r.get("status") == "exception":
        return []
    out = []
    if r.get("status") != "ok":
        return [("no-result", "no result")]
    if in_c01_set(cfg) and r.get("finite") != "1":
        out.append(("nonfinite", "a configuration inside the supported set returned a non-finite solution"))
    return out


GRIDFILE_CLI = {1: ["--write_grid_file", "1", "--file_grid_radii", "cli_radii.txt", "--file_grid_angles", "cli_angles.txt"],
                3: ["--load_grid_file", "1", "--file_grid_radii", "no_such_radii_file.txt", "--file_grid_angles", "no_such_angles_file.txt"],
                4: ["--load_grid_file", "1"], 5: ["--write_grid_file", "1"]}


def cli_args(cfg):
    args = list(GRIDFILE_CLI.get(cfg.get("gridfile", 0), []))
    for k, v in cfg.items():
        if k in CLI_NAMES:
            args += ["--" + CLI_NAMES[k], repr(v) if isinstance(v, float) else str(v)]
    return args + ([] if "verbose" in cfg else ["--verbose", "0"]) + ([] if "paraview" in cfg else ["--paraview", "0"])


def run_cli(exe, args, timeout=600):
    env = dict(os.environ)
    env.update(common.SAN_ENV)
    try:
        wd = tempfile.mkdtemp(prefix="cli", dir=common.BUILD)   # paraview output goes to the working directory
        try:
            p = subprocess.run([exe] + args, stdout=subprocess.PIPE, stderr=subprocess.PIPE, text=True, env=env, timeout=timeout, cwd=wd)
        finally:
            shutil.rmtree(wd, ignore_errors=True)
        return p.returncode, p.stdout, p.stderr
    except subprocess.TimeoutExpired:
        return -999, "", "timeout"


def judge_cli(rc, out, err, must_reject):
    text = err + out
    if "AddressSanitizer" in text or "runtime error:" in text:
        return ("cli:sanitizer", "command-line run produced a sanitizer report: %s" % gl.crash_line(text))
    if "Assertion" in text and "failed" in text:
        return ("cli:assert", "command-line run hit a failed assertion: %s" % gl.crash_line(text))
    if rc == 0:
        if must_reject:
            return ("cli:accepted-invalid", "an invalid command line was accepted (exit status 0)")
        return None
    if rc in (1, 2) and ("usage" in text.lower() or "error" in text.lower() or "invalid" in text.lower()):
        return None
    if rc == -6 and "what():" in text:
        return None  # uncaught exception with its message: non-zero exit status with a diagnostic
    if rc == -999:
        return ("cli:timeout", "command-line run did not finish")
    return ("cli:abnormal-exit", "command-line run ended with status %s without a diagnostic: %s" % (rc, text.strip().splitlines()[-1:] ))


def twin_diff(x, y, cfg=None):
    # a tolerance of exactly 0: the setters store "disabled", the parser keeps 0.  Neither can ever stop the iteration, but with
    # every tolerance disabled no residual history is kept (reduction factor reported as the neutral 1.0), with a zero tolerance
    # "enabled" it is - the two paths then report different, individually well-defined reduction factors; not compared
    # (and in the combined extrapolation mode the smoother switch, which needs that history, happens on one path only: different
    # iterates) - for such configurations only the option getters are compared
    skip = {"rho", "its", "e2", "einf", "sol"} if cfg is not None and (cfg.get("abstol") == 0.0 or cfg.get("reltol") == 0.0) else set()

    def norm(k, v):
        # a tolerance of exactly 0 can never be met: the setters store it as 'disabled' (-1), the parser keeps it as 0 - the same
        # stopping behaviour, only the getter differs
        if k in ("g_abstol", "g_reltol") and v is not None and float(v) <= 0:
            return "off"
        return v
    return [k for k in sorted(set(x) | set(y)) if (k.startswith("g_") or k in ("its", "rho", "e2", "einf", "sol", "levels", "nr", "nt"))
            and k not in skip and norm(k, x.get(k)) != norm(k, y.get(k))]


def main(tier):
    rep = common.Reporter(PID, tier, LEVEL)
    b = _build()
    cfgs = [expand(c) for c in configs(tier)]
    lines = [("o%05d" % i, gl.line_of("o%05d" % i, c)) for i, c in enumerate(cfgs)]
    counts = {"api_runs": 0, "rejected": 0, "completed": 0, "cli_runs": 0, "cli_rejected": 0, "stat_pairs": 0, "valgrind_runs": 0}
    outcomes = set()
    # 1. API under both sanitizer builds
    results = {}
    for build in ("san", "sannd"):
        res = gl.run_cases(b[build], lines, timeout=3000)
        results[build] = res
        for i, c in enumerate(cfgs):
            r = res.get("o%05d" % i, {"status": "crash", "kind": "missing"})
            counts["api_runs"] += 1
            if r.get("status") == "exception":
                counts["rejected"] += 1
                outcomes.add("rej:" + r.get("what", "")[:40])
            elif r.get("status") == "ok":
                counts["completed"] += 1
                outcomes.add("ok:%s:%s" % (r.get("its"), r.get("levels")))
            for key, what in judge_api(c, r, build):
                rep.violation("api:" + key, what + "  [%s build, options %s]" % (build, json.dumps(c01.short(c))), {"config": c, "build": build, "entry": "api"})
    # 2. statistics are a function of the solve: different stack / heap garbage must not change them
    ok_ids = [i for i, c in enumerate(cfgs) if results["san"].get("o%05d" % i, {}).get("status") == "ok"]
    stat_lines = lambda pat: [("o%05d" % i, gl.line_of("o%05d" % i, cfgs[i], stackfill=pat)) for i in ok_ids]
    ra = gl.run_cases(b["rel"], stat_lines(90), env={"MALLOC_PERTURB_": "165"})
    rb = gl.run_cases(b["rel"], stat_lines(255), env={"MALLOC_PERTURB_": "90"})
    for i in ok_ids:
        cid = "o%05d" % i
        x, y = ra.get(cid, {}), rb.get(cid, {})
        counts["stat_pairs"] += 1
        if x.get("status") != "ok" or y.get("status") != "ok":
            if x.get("status") == "crash" or y.get("status") == "crash":
                rr = x if x.get("status") == "crash" else y
                rep.violation("api:release-crash:%s" % rr.get("kind"), "the shipped-configuration build died: %s  [options %s]" %
                              (gl.crash_line(rr.get("stderr")), json.dumps(c01.short(cfgs[i]))), {"config": cfgs[i], "entry": "api-rel"})
            continue
        diff = [k for k in ("its", "rho", "e2", "einf", "sol", "haveerr") if x.get(k) != y.get(k)]
        rho = gl.num(x, "rhod")
        want_err = "1" if (cfgs[i].get("exact", 1) == 1 and "argv" not in cfgs[i]) else "0"
        if x.get("haveerr") != want_err and cfgs[i].get("exact", 1) == 0:
            rep.violation("stats:error-figure-without-exact-solution", "exactErrorWeightedEuclidean()/exactErrorInfinity() report a value although no "
                          "exact solution is attached (haveerr=%s)  [options %s]" % (x.get("haveerr"), json.dumps(c01.short(cfgs[i]))),
                          {"config": cfgs[i], "entry": "stats"})
        if diff:
            rep.violation("stats:garbage-dependent:%s" % "+".join(diff), "statistics depend on uninitialised memory: %s differ between two runs "
                          "that only differ in the stack/heap fill pattern (e.g. %s=%s vs %s)  [options %s]" %
                          (diff, diff[0], x.get(diff[0]), y.get(diff[0]), json.dumps(c01.short(cfgs[i]))), {"config": cfgs[i], "entry": "stats"})
        elif in_c01_set(cfgs[i]) and (rho is None or rho != rho or rho in (float("inf"), float("-inf"))):
            rep.violation("stats:reduction-factor-not-finite", "meanResidualReductionFactor() is %r  [options %s]" % (rho, json.dumps(c01.short(cfgs[i]))),
                          {"config": cfgs[i], "entry": "stats"})
    # 3. command line: the same deviations (every 3rd in the quick tier) + invalid enum integers / malformed arguments
    cli_cfgs = cfgs if tier == "thorough" else cfgs[::3]
    cli_jobs = [("cfg", c, cli_args(c), False) for c in cli_cfgs if c["nr_exp"] <= 4]
    base_args = ["--nr_exp", "3", "--ntheta_exp", "3", "--verbose", "0"]
    for name, val in CLI_INVALID:
        cli_jobs.append(("invalid", {name: val}, base_args + ["--" + name] + ([val] if val != "" else []), True))
    # 'take' without caches must be rejected from the command line as well
    cli_jobs.append(("invalid", {"take-without-caches": 1}, base_args + ["--stencilDistributionMethod", "0", "--cacheDomainGeometry", "0"], True))
    cli_jobs.append(("invalid", {"non-coarsenable": 1}, ["--nr_exp", "2", "--ntheta_exp", "3", "--verbose", "0"], True))

    def do_cli(job):
        kind, c, args, must = job
        rc, out, err = run_cli(b["exe_san"], args)
        return job, rc, judge_cli(rc, out, err, must)
    for (kind, c, args, must), rc, verdict in common.pmap(do_cli, cli_jobs):
        counts["cli_runs"] += 1
        if rc != 0:
            counts["cli_rejected"] += 1
        if verdict:
            rep.violation(verdict[0] + (":" + next(iter(c)) if kind == "invalid" else ""), verdict[1] + "  [gmgpolar %s]" % " ".join(args),
                          {"args": args, "entry": "cli", "must_reject": must})
    # 5. the two ways of configuring a solver agree: default constructor + setParameters(argc, argv) (src/main.cpp) against the
    #    four-argument constructor + setters, for every configuration that completes through the setters: same option getters, same
    #    iteration count, reduction factor, error figures and solution (release build; both runs in the harness)
    twin_ids = [i for i in ok_ids if cfgs[i].get("gridfile", 0) == 0 and cfgs[i].get("exact", 1) == 1]
    twin_lines, twin_prior = [], {}
    for n, i in enumerate(twin_ids):
        extra = {"argv": "|".join(cli_args(cfgs[i]))}
        if n % 2:   # every second twin parses another configuration's command line first
            extra["argv0"] = "|".join(cli_args(cfgs[twin_ids[(n * 7 + 3) % len(twin_ids)]]))
            twin_prior[i] = extra["argv0"]
        twin_lines.append(("w%05d" % i, gl.line_of("w%05d" % i, cfgs[i], **extra)))
    api_lines = [("o%05d" % i, gl.line_of("o%05d" % i, cfgs[i])) for i in twin_ids]
    rt = gl.run_cases(b["rel"], twin_lines)
    ro = gl.run_cases(b["rel"], api_lines)
    counts["cli_vs_api_pairs"] = len(twin_ids)
    for i in twin_ids:
        x, y = ro.get("o%05d" % i, {}), rt.get("w%05d" % i, {})
        if x.get("status") != "ok":
            continue
        if y.get("status") != "ok":
            rep.violation("cli-vs-api:acceptance", "options that run through the setters are %s through setParameters(argc, argv): %s  [gmgpolar %s]" %
                          (y.get("status"), y.get("what") or gl.crash_line(y.get("stderr")), " ".join(cli_args(cfgs[i]))),
                          {"config": cfgs[i], "entry": "cli-vs-api", "argv0": twin_prior.get(i)})
            continue
        diff = twin_diff(x, y, cfgs[i])
        if diff:
            rep.violation("cli-vs-api:%s" % diff[0], "configured through setParameters(argc, argv) the solver differs from the same options set through the "
                          "setters in %s (e.g. %s: %s vs %s)  [gmgpolar %s]" % (diff, diff[0], y.get(diff[0]), x.get(diff[0]), " ".join(cli_args(cfgs[i]))),
                          {"config": cfgs[i], "entry": "cli-vs-api", "argv0": twin_prior.get(i)})
    # 6. a grid written by one solver (write_grid_file, 18 digits) and loaded by another (load_grid_file) is the same grid: the solve on
    #    the loaded grid equals the solve on the generated grid bit for bit
    rt_ids = [i for i in ok_ids if cfgs[i].get("gridfile", 0) == 2]
    gen_lines = []
    for i in rt_ids:
        g = dict(cfgs[i])
        g["gridfile"] = 0
        gen_lines.append(("g%05d" % i, gl.line_of("g%05d" % i, g)))
    rl = gl.run_cases(b["rel"], [("o%05d" % i, gl.line_of("o%05d" % i, cfgs[i])) for i in rt_ids])
    rg = gl.run_cases(b["rel"], gen_lines)
    counts["grid_file_roundtrip_pairs"] = len(rt_ids)
    for i in rt_ids:
        x, y = rg.get("g%05d" % i, {}), rl.get("o%05d" % i, {})
        if x.get("status") != "ok" or y.get("status") != "ok":
            if x.get("status") == "ok":
                rep.violation("grid-file-roundtrip:rejected", "a grid written by write_grid_file is %s by load_grid_file: %s  [options %s]" %
                              (y.get("status"), y.get("what") or gl.crash_line(y.get("stderr")), json.dumps(c01.short(cfgs[i]))),
                              {"config": cfgs[i], "entry": "api"})
            continue
        diff = [k for k in ("nr", "nt", "levels", "its", "rho", "e2", "einf", "sol") if x.get(k) != y.get(k)]
        if diff:
            rep.violation("grid-file-roundtrip:%s" % diff[0], "solving on the grid a solver wrote to files and another loaded differs from solving on the "
                          "generated grid in %s (e.g. %s: %s vs %s)  [options %s]" % (diff, diff[0], y.get(diff[0]), x.get(diff[0]),
                                                                                       json.dumps(c01.short(cfgs[i]))), {"config": cfgs[i], "entry": "api"})
    # 4. valgrind slice: no use of uninitialised values in the shipped configuration
    vg = [i for i in ok_ids if cfgs[i]["nr_exp"] <= 3 or cfgs[i].get("maxit", 150) <= 3][:(40 if tier == "thorough" else 12)]
    tmp = tempfile.mkdtemp(prefix="c20", dir=common.BUILD)

    def do_vg(i):
        rp = os.path.join(tmp, "v%d.txt" % i)
        env = dict(os.environ)
        env["OMP_NUM_THREADS"] = "1"
        p = subprocess.run(["valgrind", "-q", "--error-exitcode=99", "--undef-value-errors=yes", "--leak-check=no", b["rel"], rp],
                           input=gl.line_of("v%d" % i, cfgs[i], threads=1, stackfill=90) + "\n", stdout=subprocess.PIPE, stderr=subprocess.PIPE, text=True,
                           env=env, timeout=1800)
        return i, p.returncode, p.stderr
    try:
        for i, rc, err in common.pmap(do_vg, vg, jobs=min(8, common.NCPU)):
            counts["valgrind_runs"] += 1
            if "uninitialised" in err:
                m = re.search(r"(Conditional jump or move depends on uninitialised value|Use of uninitialised value[^\n]*)", err)
                where = re.search(r"(?:at|by) 0x[0-9A-F]+: ([^\n]+)", err)
                rep.violation("valgrind:uninitialised:%s" % (where.group(1).split("(")[0].strip() if where else "?"),
                              "valgrind memcheck: %s in %s  [options %s]" % (m.group(1) if m else "uninitialised value", where.group(1) if where else "?",
                                                                             json.dumps(c01.short(cfgs[i]))), {"config": cfgs[i], "entry": "valgrind"})
    finally:
        import shutil
        shutil.rmtree(tmp, ignore_errors=True)
    cov = {
        "evaluations": counts["api_runs"] + counts["cli_runs"] + 2 * counts["stat_pairs"] + counts["valgrind_runs"],
        "distinct_nontrivial": len(outcomes),
        "counts": counts, "configurations": len(cfgs),
        "rule": "configurations = 3 bases + every single deviation over %d options (value alphabets incl. verbosity, paraview output, the "
                "solver's grid-file options, Rmax, disabled and zero tolerances, "
                "zero smoothing steps, maxIterations 0/1/2, level caps 1/2/10, non-coarsenable and smallest grids, anisotropy with in- and "
                "out-of-domain jump radius, take without caches, Culham / refined problems, 16 threads, reduction factor 0.1) + %d "
                "hand-picked pairs (+ ALL pairs of single deviations on every base in the thorough tier); each through the "
                "API under ASan+UBSan with assertions on AND with NDEBUG, through the gmgpolar executable (plus invalid enum integers / "
                "malformed arguments that must be rejected), twice in the release build with different stack and heap fill patterns, and "
                "a slice under valgrind memcheck; distinct = distinct outcomes (rejection message / iterations x levels)" % (len(ALPHABET), len(PAIRS)),
        "samples": [c01.short(cfgs[1]), c01.short(cfgs[-1]), " ".join(cli_jobs[-1][2])],
        "exhaustive": True,
    }
    return rep.finish(cov, ["option values outside the documented kinds (negative sizes, negative thread counts) are not part of the alphabet",
                            "a command line is 'rejected' when the exit status is non-zero and a diagnostic (usage text or the exception message) "
                            "is printed, with no sanitizer report"])


def replay(path):
    rp = json.load(open(path))["replay"]
    b = _build()
    if rp.get("entry") == "cli":
        outs = []
        for _ in range(2):
            rc, out, err = run_cli(b["exe_san"], rp["args"])
            outs.append((rc, judge_cli(rc, out, err, rp.get("must_reject", False))))
        print(outs[0])
        if outs[0][1] != outs[1][1]:
            print("replay is not deterministic; refusing to report")
            return 2
        if outs[0][1]:
            print("VIOLATION property=%s replay=%s" % (PID, path))
            return 1
        print("replay: property held")
        return 0
    cfg = rp["config"]
    if rp.get("entry") == "cli-vs-api":
        outs = []
        for _ in range(2):
            x = gl.run_cases(b["rel"], [("r0", gl.line_of("r0", cfg))]).get("r0", {})
            ex = {"argv": "|".join(cli_args(cfg))}
            if rp.get("argv0"):
                ex["argv0"] = rp["argv0"]
            y = gl.run_cases(b["rel"], [("r1", gl.line_of("r1", cfg, **ex))]).get("r1", {})
            outs.append((x.get("status"), y.get("status"), twin_diff(x, y, cfg) if x.get("status") == "ok" and y.get("status") == "ok" else []))
        if outs[0] != outs[1]:
            print("replay is not deterministic; refusing to report")
            return 2
        print(outs[0])
        if outs[0][0] == "ok" and (outs[0][1] != "ok" or outs[0][2]):
            print("VIOLATION property=%s replay=%s" % (PID, path))
            return 1
        print("replay: property held")
        return 0
    if rp.get("entry") == "stats":
        x = gl.run_cases(b["rel"], [("r0", gl.line_of("r0", cfg, stackfill=90))], env={"MALLOC_PERTURB_": "165"}).get("r0", {})
        y = gl.run_cases(b["rel"], [("r0", gl.line_of("r0", cfg, stackfill=255))], env={"MALLOC_PERTURB_": "90"}).get("r0", {})
        diff = [k for k in ("its", "rho", "e2", "einf", "sol", "haveerr") if x.get(k) != y.get(k)]
        print(diff)
        if diff:
            print("VIOLATION property=%s replay=%s" % (PID, path))
            return 1
        print("replay: property held")
        return 0
    build = rp.get("build", "san")
    outs = []
    for _ in range(2):
        r = gl.run_cases(b[build], [("r0", gl.line_of("r0", cfg))]).get("r0", {})
        outs.append(judge_api(cfg, r, build))
    if [k for k, _ in outs[0]] != [k for k, _ in outs[1]]:
        print("replay is not deterministic; refusing to report")
        return 2
    for k, w in outs[0]:
        print("  [%s] %s" % (k, w))
    if outs[0]:
        print("VIOLATION property=%s replay=%s" % (PID, path))
        return 1
    print("replay: property held")
    return 0
