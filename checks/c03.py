"""C03 one discrete operator: give / take / cached / uncached / every level agree with each other and with the
documented stencil; coarse caches equal a fresh evaluation.  Exhaustive over all unit vectors x grid-shape lattice."""
import json
import numpy as np

import common
import opalg_lib as ol

PID = "C03"
LEVEL = "model_checking"
TOL = 1e-12          # relative to the row scale; observed on the clean tree: see evidence worst_rel
ULP_TOL = 4.0


def _build():
    common.build_lib("san")
    return common.build_harness("opalg", "san", ["opalg.cpp"])


def _check_level(s, r, prefix, viols, stats, lvl):
    Aref, pattern, dirichlet, info = ol.reference_A(r, prefix)
    sc = ol.rowscale(Aref)
    names = [k[len(prefix):] for k in r if k.startswith(prefix + "A_") and not k.endswith(("_affdev", "_linx", "_liny"))
             and "/" not in k[len(prefix):]]
    mats = {}
    for nm in sorted(names):
        A = ol.dense(r[prefix + nm])
        mats[nm] = A
        aff = float(r[prefix + nm + "_affdev"][0, 0])
        if aff != 0.0:
            viols.append(("affine:%s:L%d" % (nm, lvl), "residual(rhs=e_j, x=0) is not exactly e_j (deviation %.3g)" % aff,
                          {"matrix": nm, "level": lvl}))
        if prefix + nm + "_linx" in r:
            ld = ol.lin_deviation(A, r[prefix + nm + "_linx"], r[prefix + nm + "_liny"])
            stats["worst_linearity"] = max(stats.get("worst_linearity", 0.0), ld)
            if not ld <= ol.LIN_TOL:
                viols.append(("nonlinear:%s" % nm.split("_")[1][:4], "%s applied to a generic vector (O(1), 1e-20 or 1e18 in size) differs from "
                              "its matrix times the vector by %.3g: the operator is not linear in u (value-dependent shortcut?)" % (nm, ld),
                              {"matrix": nm, "level": lvl}))
        D = np.abs(A - Aref) / sc[:, None]
        w = float(D.max())
        stats["worst_rel"] = max(stats.get("worst_rel", 0.0), w)
        if w > TOL:
            i, j = np.unravel_index(np.argmax(D), D.shape)
            ri, rj = _node(info, i), _node(info, j)
            cls = _row_class(info, ri)
            viols.append(("stencil:%s:%s:%s" % (nm.split("_")[1][:4], cls, _offset(info, ri, rj)),
                          "%s differs from the documented stencil at row node (i_r=%d,i_theta=%d) column (%d,%d): "
                          "%.17g vs %.17g (rel %.3g) on level %d" % (nm, ri[0], ri[1], rj[0], rj[1], A[i, j], Aref[i, j], w, lvl),
                          {"matrix": nm, "level": lvl, "row": ri, "col": rj}))
        # Dirichlet rows: exactly the identity
        for c in np.where(dirichlet)[0]:
            row = A[c].copy()
            row[c] -= 1.0
            if np.any(row != 0.0):
                viols.append(("dirichlet-row:%s" % nm.split("_")[1][:4], "%s: Dirichlet row %d is not the identity row" % (nm, c),
                              {"matrix": nm, "level": lvl}))
                break
        # nothing outside the 9-point (7-point) pattern
        out = np.abs(np.where(pattern, 0.0, A)) / sc[:, None]
        if out.max() > TOL:
            i, j = np.unravel_index(np.argmax(out), out.shape)
            viols.append(("pattern:%s" % nm.split("_")[1][:4], "%s has an entry outside the stencil pattern at (%d,%d): %.3g" %
                          (nm, i, j, A[i, j]), {"matrix": nm, "level": lvl}))
    # pairwise agreement (tighter than via the reference)
    keys = sorted(mats)
    for a in range(len(keys)):
        for b in range(a + 1, len(keys)):
            D = np.abs(mats[keys[a]] - mats[keys[b]]) / sc[:, None]
            stats["worst_pair"] = max(stats.get("worst_pair", 0.0), float(D.max()))
            if D.max() > TOL:
                viols.append(("pair:%s-%s" % (keys[a], keys[b]), "%s and %s differ by %.3g (row-relative) on level %d" %
                              (keys[a], keys[b], D.max(), lvl), {"level": lvl}))
    stats["matrices"] = stats.get("matrices", 0) + len(keys)
    stats["columns"] = stats.get("columns", 0) + len(keys) * Aref.shape[0] * 2
    return len(keys)


def _node(info, k):
    pos = np.argwhere(info["idx"] == k)[0]
    return int(pos[0]), int(pos[1])


def _row_class(info, ri):
    nr = info["nr"]
    i = ri[0]
    if i == 0:
        return "inner"
    if i == 1:
        return "next-inner"
    if i == nr - 1:
        return "outer"
    if i == nr - 2:
        return "next-outer"
    if i == info["circles"] - 1:
        return "last-circle"
    if i == info["circles"]:
        return "first-radial"
    return "interior"


def _offset(info, ri, rj):
    nt = info["nt"]
    di = rj[0] - ri[0]
    dj = (rj[1] - ri[1] + nt // 2) % nt - nt // 2
    return "d%+d%+d" % (di, dj)


def oracle(s, r):
    viols, stats = [], {}
    n = _check_level(s, r, "", viols, stats, 0)
    if n < 10:
        viols.append(("missing-matrices", "expected (give x4 + take) x 2 thread counts, got %d" % n, {}))
    nl = int(r["chain_levels"][0, 0]) if "chain_levels" in r else 1
    stats["levels"] = nl
    for d in range(1, nl):
        p = "L%d/" % d
        _check_level(s, r, p, viols, stats, d)
        for tag in ("00", "01", "10", "11"):
            u = float(r[p + "cache_ulp" + tag][0, 0])
            stats["worst_cache_ulp"] = max(stats.get("worst_cache_ulp", 0.0), u)
            if u > ULP_TOL:
                viols.append(("coarse-cache:%s" % tag, "level %d cache (flags %s) differs from a fresh evaluation at the "
                              "coarse nodes by %.3g ulp" % (d, tag, u), {"level": d, "flags": tag}))
            if float(r[p + "cache_flags_ok" + tag][0, 0]) != 1.0:
                viols.append(("coarse-cache-flags:%s" % tag, "level %d cache does not carry the cache flags" % d, {}))
    return viols, stats


def cases_for(tier):
    if tier == "thorough":
        return ol.lattice([5, 6, 7, 8, 9, 11, 13, 17], [4, 8, 12, 16, 20, 24, 32], "geo,A,chain", tier,
                          cycle_offsets=(0, 1, 2, 3), extra={"tlist": "1,3"}) + \
            ol.full_block([5, 7, 8], [4, 8, 12], "geo,A,chain", tier, extra={"tlist": "1,3"})
    return ol.lattice([5, 6, 7, 8, 9, 11], [4, 8, 12, 16], "geo,A,chain", tier, cycle_offsets=(0, 1), extra={"tlist": "1,3"})


def run(tier, cases=None, rep=None):
    rep = rep or common.Reporter(PID, tier, LEVEL)
    binary = _build()
    cases = cases if cases is not None else cases_for(tier)
    results = ol.run_cases(binary, cases, "c03", "oracle")
    tot = {}
    nontriv = set()
    for s, viols, st in results:
        for k, v in st.items():
            if k.startswith("worst"):
                tot[k] = max(tot.get(k, 0.0), v)
            else:
                tot[k] = tot.get(k, 0) + v
        nontriv.add((s["nr"], s["nt"], s["circles"], s["dirbc"], s["geom"], s["alpha"], s["beta"], s["rpat"], s["tpat"]))
        for key, what, extra in viols:
            rp = ol.replay_record(s)
            rp.update(extra)
            rep.violation(key, what + "  [case %s]" % json.dumps(ol.spec_summary(s)), rp)
    hist_cov = ol.history_block(binary, [c for c in cases if not c["id"].startswith("f")], rep, n=(12 if tier == "thorough" else 8))
    cov = {
        "full_product_block_cases": sum(1 for c in cases if c["id"].startswith("f")),
        "full_product_block_rule": ol.FULL_BLOCK_RULE,
        "states": len(results),
        "transitions": int(tot.get("columns", 0)),
        "traces_validated_against_impl": int(tot.get("columns", 0)),
        "evaluations": len(results),
        "distinct_nontrivial": len(nontriv),
        "matrices_extracted": int(tot.get("matrices", 0)),
        "chain_levels_checked": int(tot.get("levels", 0)),
        "worst_rel_vs_reference": tot.get("worst_rel"),
        "worst_rel_between_implementations": tot.get("worst_pair"),
        "worst_cache_ulp": tot.get("worst_cache_ulp"), "worst_linearity_deviation": tot.get("worst_linearity"),
        "tolerance": TOL,
        "rule": "states = grid/problem cases of the lattice (nr x ntheta x every split x boundary in full product; "
                "spacing, geometry, profile, R0, Rmax, thread count cycled); transitions = operator applications to unit "
                "vectors (every column of every matrix: give x 4 cache combinations + take, on every level of the "
                "coarsening chain); distinct = distinct (shape, split, boundary, geometry, profile, spacing) tuples",
        "samples": [ol.spec_summary(s) for s, _, _ in results[:3]],
        "exhaustive": True,
    }
    cov.update(hist_cov)
    return rep, cov


def main(tier):
    rep, cov = run(tier)
    return rep.finish(cov, ["the reference stencil assembler (checks/opalg_lib.py) written from the documented scheme",
                            "linearity of the residual in (u, f): its action on a basis is the operator"])


def replay(path):
    rp = json.load(open(path))["replay"]
    return ol.replay_cases(_build(), rp, "c03", PID, path)
