"""C12 results are reproducible and do not depend on the thread count: all explored schedules give bit-identical
outputs (and access sets), the mcomp runtime agrees bit for bit with free-running libgomp, results across thread counts
differ by re-association only, reductions are judged for every arrival order of the partial results."""
import json
import math
import re

import numpy as np

import common
import mc_lib

PID = "C12"
LEVEL = "model_checking"
EPS = 2.0 ** -52
# allowed difference between thread counts, relative to max|y| (floating-point re-association only)
TOL_T = {"resid_give": 1e-12, "resid_take": 1e-12, "levelcache": 1e-13, "transfers": 1e-13, "transfers_big": 1e-13, "vector": 1e-13,
         "smooth_give": 1e-9, "smooth_take": 1e-9, "esmooth_give": 1e-9, "esmooth_take": 1e-9, "ds_give": 1e-6, "ds_take": 1e-6,
         "solver": 1e-8}


def _build():
    return mc_lib.build()


def tier_Ts(tier):
    return [2, 3, 4, 5, 6, 7, 8, 12, 16, 32] if tier == "thorough" else [2, 3, 4, 7, 16]


def all_cases(tier):
    Ts = tier_Ts(tier)
    stencil = mc_lib.stencil_cases(tier, Ts, 1)
    if tier != "thorough":
        # the race check (C11) explores every shape; here every second shape is enough to keep the tier short
        shp = mc_lib.shapes(tier)[::2]
        keep = set((a[1], a[2], a[3]) for a in shp)
        stencil = [c for c in stencil if (c["nt"], c["circles"], c["dirbc"]) in keep]
    cs = stencil + mc_lib.other_cases(tier, Ts, 1, big_stencil=(tier == "thorough"))
    cs.append(dict(id="threadtable", line="id=threadtable op=threadtable T=1 bound=0 nr_exp=5 ntheta_exp=6 geom=0 prob=0 alpha=1 beta=0 "
                   "kappa=0.3 delta=0.2 maxit=0", op="threadtable", T=1, group="threadtable"))
    return mc_lib.with_T1(cs)


def judge_vector_scalars(c, svals):
    """svals: rows = distinct scalar tuples seen over the explored arrival orders"""
    out = []
    n = c.get("n", 10001)
    for row in svals:
        dot, l1, l2, linf, rdot, rl1, rl2, rinf, sabs = row[:9]
        if len(row) >= 18:
            names = ("assign", "add", "subtract", "linear_combination", "multiply", "copy-constructor", "copy-assignment",
                     "add-with-threshold", "equals")
            for name, dev in zip(names, row[9:18]):
                tol = 4 * EPS if name == "linear_combination" else 0.0
                if not dev <= tol:
                    out.append(("kernel:%s" % name, "%s deviates from its element-wise definition by %.3g (allowed %.3g; n=%d, T=%d)" %
                                (name, dev, tol, n, c["T"])))
        else:
            out.append(("kernel:missing", "the probe did not report the element-wise kernel deviations"))
        for name, got, ref, scale in (("dot_product", dot, rdot, sabs), ("l1_norm", l1, rl1, rl1), ("l2_norm_squared", l2, rl2, rl2)):
            if not abs(got - ref) <= n * EPS * scale:
                out.append(("kernel:%s" % name, "%s = %.17g differs from its definition %.17g by more than n*eps*sum|terms| "
                            "(n=%d, T=%d)" % (name, got, ref, n, c["T"])))
        if linf != rinf:
            out.append(("kernel:infinity_norm", "infinity_norm = %.17g but max|x_i| = %.17g (n=%d, T=%d)" % (linf, rinf, n, c["T"])))
    return out


def main(tier):
    rep = common.Reporter(PID, tier, LEVEL)
    engine, free = _build()
    cs = all_cases(tier)
    pairs = [(c["id"], c["line"]) for c in cs]
    res, vecs = mc_lib.run(engine, pairs)
    fres, fvecs = mc_lib.run(free, [(i, l + " reps=3") for i, l in pairs if "op=threadtable" not in l], jobs=max(2, common.NCPU // 4))
    tot = dict(schedules=0, epochs=0, blocks=0)
    sched_dep_access = []
    distinct_scalar_sets = 0
    worst_T = {}
    by_group = {}
    for c in cs:
        by_group.setdefault(c["group"], []).append(c)
    compared = 0
    for c in cs:
        r = res.get(c["id"], {"status": "crash", "kind": "missing"})
        info = {k: c[k] for k in c if k != "line"}
        if r.get("status") != "ok":
            rep.violation("engine-run:%s:%s" % (c["op"], r.get("kind", r.get("status"))), "the run under the schedule explorer failed: %s  [case %s]"
                          % ((r.get("stderr") or r.get("what") or "")[-300:], info), {"case": c["line"]})
            continue
        for k in tot:
            tot[k] += int(r.get(k, 0))
        # (a) schedule independence for a fixed thread count
        if int(r["distinctout"]) != 1 or int(r["outmismatch"]) != 0:
            rep.violation("schedule-dependent-output:%s" % c["op"], "the output vector depends on the order in which the threads ran "
                          "(%s distinct outputs over %s schedules)  [case %s]" % (r["distinctout"], r["schedules"], info), {"case": c["line"]})
        if int(r["sigmismatch"]) != 0:
            # not a violation: with a critical section which member stores may legitimately depend on the arrival order while the
            # result does not (first version reported this and alarmed on a correct 'omp critical' maximum); recorded as coverage
            sched_dep_access.append(c["id"])
        if c["op"] == "threadtable":
            y = vecs[c["id"]]["y"].ravel()
            rows, cur = [], []
            for v in y:
                if v < 0:
                    rows.append(cur)
                    cur = []
                else:
                    cur.append(int(v))
            k = 0
            for t in range(1, 33):
                for f in (0.1, 0.25, 0.5, 0.75, 1.0):
                    want = [max(1, min(t, int(math.floor(t * math.pow(f, d))))) for d in range(len(rows[k]))]
                    if rows[k] != want:
                        rep.violation("threads-per-level", "threads per level for maxOpenMPThreads=%d, factor=%g are %s, expected %s"
                                      % (t, f, rows[k], want), {"case": c["line"]})
                    k += 1
            continue
        # engine vs free-running libgomp, bit for bit
        fr = fres.get(c["id"], {})
        if fr.get("status") != "ok":
            rep.violation("free-run:%s:%s" % (c["op"], fr.get("kind", fr.get("status"))), "the free-running differential failed: %s  [case %s]"
                          % ((fr.get("stderr") or fr.get("what") or "")[-300:], info), {"case": c["line"]})
        else:
            if fr.get("same") != "1":
                rep.violation("not-reproducible:%s" % c["op"], "repeated free-running executions (real threads) give different output vectors"
                              "  [case %s]" % info, {"case": c["line"]})
            a, b = vecs[c["id"]].get("y"), fvecs[c["id"]].get("y")
            compared += 1
            if a is None or b is None or a.shape != b.shape or a.tobytes() != b.tobytes():
                rep.violation("engine-vs-libgomp:%s" % c["op"], "the explorer's result differs from the free-running libgomp result for the same "
                              "thread count (runtime model and real runtime disagree)  [case %s]" % info, {"case": c["line"]})
        # (c) reduction kernels: every arrival order seen
        if c["op"] == "vector":
            sv = vecs[c["id"]].get("s")
            if sv is not None and sv.size:
                distinct_scalar_sets += sv.shape[0]
                for key, what in judge_vector_scalars(c, sv):
                    rep.violation(key, what, {"case": c["line"]})
    # (b) across thread counts
    for g, members in by_group.items():
        ref = [c for c in members if c["T"] == 1]
        if not ref or ref[0]["id"] not in vecs or "y" not in vecs[ref[0]["id"]]:
            continue
        y1 = vecs[ref[0]["id"]]["y"].ravel()
        for c in members:
            if c["T"] == 1 or c["id"] not in vecs or "y" not in vecs[c["id"]]:
                continue
            y = vecs[c["id"]]["y"].ravel()
            op = c["op"]
            if op == "solver":
                # the tail holds the threads-per-level table, which legitimately depends on T
                nlev = 0
                y, y1c = y[:-8], y1[:-8]
                m = min(len(y), len(y1c))
                y, y1c = y[:m], y1c[:m]
            else:
                y1c = y1
            if y.shape != y1c.shape:
                rep.violation("thread-count-shape:%s" % op, "output size depends on the thread count  [case %s]" % c["id"], {"case": c["line"]})
                continue
            sc = max(float(np.abs(y1c).max()), 1e-300)
            d = float(np.abs(y - y1c).max()) / sc
            worst_T[op] = max(worst_T.get(op, 0.0), d)
            if not d <= TOL_T.get(op, 1e-9):
                rep.violation("thread-count-dependent:%s" % op, "the result with %d threads differs from the single-thread result by %.3g "
                              "(relative to max|y|): more than floating-point re-association  [case %s]" % (c["T"], d, c["id"]), {"case": c["line"]})
    cov = {
        "states": tot["epochs"], "transitions": tot["blocks"], "traces_validated_against_impl": compared,
        "schedules": tot["schedules"], "evaluations": len(cs), "distinct_nontrivial": len(by_group),
        "cases_with_schedule_dependent_access_sets": sched_dep_access[:20],
        "engine_vs_libgomp_bitwise_comparisons": compared, "distinct_reduction_results_seen": distinct_scalar_sets,
        "worst_relative_difference_across_thread_counts": worst_T, "tolerances_across_thread_counts": TOL_T,
        "team_sizes": [1] + tier_Ts(tier),
        "rule": "same cases as C11 (every second shape in the quick tier) for team sizes incl. 1; per case all schedules within 1 "
                "deviation must give bit-identical outputs and access sets; the same instrumented objects linked with the real libgomp "
                "and run free on real threads 3 times must give the same bits (validates the runtime model); outputs across thread "
                "counts are compared with the single-thread run; vector kernels at n in {9999, 10000, 10001, 12345}: every distinct "
                "reduction result over the explored arrival orders is judged against a long-double reference; threads-per-level table "
                "for maxOpenMPThreads 1..32 x 5 reduction factors",
        "samples": [cs[0]["line"][:300], cs[-1]["line"][:200]],
        "exhaustive": True,
    }
    return rep.finish(cov, ["single-thread results are the reference for 'no more than re-association'; tolerances per operator class "
                            "(residual 1e-12, smoothers 1e-9, direct solver 1e-6 of max|y|)"])


def replay(path):
    rp = json.load(open(path))["replay"]
    engine, free = _build()
    line = re.sub(r"id=\S+", "id=r0", rp["case"])
    outs = []
    for _ in range(2):
        res, _v = mc_lib.run(engine, [("r0", line)], chunk=1)
        r = res.get("r0", {})
        outs.append((r.get("status"), r.get("distinctout"), r.get("outmismatch"), r.get("sigmismatch")))
    if outs[0] != outs[1]:
        print("replay is not deterministic; refusing to report")
        return 2
    print(outs[0])
    print("replay shows the schedule-(in)dependence part only; cross-thread-count findings need the full check")
    if outs[0][0] != "ok" or outs[0][1] != "1" or outs[0][2] != "0" or outs[0][3] != "0":
        print("VIOLATION property=%s replay=%s" % (PID, path))
        return 1
    print("replay: property held")
    return 0
