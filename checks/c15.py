"""C15 copies and moves: BFS over operation histories on live objects vs a value-semantics model."""
import json
import common
import enumlib

PID = "C15"
LEVEL = "model_checking"


def _build():
    return common.build_harness("c15_copymove", "san", ["c15_copymove.cpp"], link_libs=False)


def main(tier):
    rep = common.Reporter(PID, tier, LEVEL)
    binary = _build()
    res = enumlib.run_enumerator(binary, tier, 6, timeout=3000)
    allstats, samples = [], []
    for p, rc, out, err in res:
        st, sm, vi = enumlib.parse_lines(out)
        if rc != 0:
            enumlib.crash_report(rep, "c15:class%d" % p, p, rc, out, err)
        allstats.append(st)
        samples += sm
        for key, what, spec in vi:
            rep.violation(key, what, {"spec": spec})
    st = enumlib.merge_stats(allstats)
    per_class = {k: v for k, v in st.items() if k.startswith(("states_", "transitions_", "maxdepth_"))}
    cov = {
        "states": int(st.get("states", 0)),
        "transitions": int(st.get("transitions", 0)),
        "traces_validated_against_impl": int(st.get("replays", 0)),
        "observations": int(st.get("observations", 0)),
        "big_vector_operations": int(st.get("big_vector_operations", 0)),
        "per_class": per_class,
        "samples": samples[:8] or ["(none)"],
        "rule": "BFS over histories of {construct(variants), default-construct, set entries, solve/read, copy-construct, "
                "move-construct, copy-assign i<-j (incl. self), move-assign i<-j, flag toggle} on 3 slots; a state is a "
                "distinct canonical string of all visible+hidden fields of all live objects plus the model; every "
                "transition replays the history on fresh objects and then observes every live object destructively",
        "bounds": "depth 7 (quick) / 9 (thorough); 2 general slots + 1 construction target; 2-5 constructor variants and "
                  "2 entry patterns per class",
        "exhaustive": True,
    }
    return rep.finish(cov, ["moved-from objects are modelled as empty (the classes' own convention); self-move-assignment "
                            "is outside the alphabet; set-entries is only applied to objects that have not factorised"])


def replay(path):
    binary = _build()
    spec = json.load(open(path))["replay"]["spec"]
    outs = []
    for _ in range(2):
        rc, out, err = common.run_probe(binary, ["replay"], stdin_text=spec + "\n")
        outs.append((rc, [l for l in out.splitlines() if l.startswith("VIOL")]))
    if outs[0] != outs[1]:
        print("replay is not deterministic; refusing to report")
        return 2
    for l in outs[0][1]:
        print(l)
    if outs[0][1] or outs[0][0] != 0:
        print("VIOLATION property=%s replay=%s" % (PID, path))
        return 1
    print("replay: property held")
    return 0
