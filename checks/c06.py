"""C06 smoothing is an exact zebra line relaxation of the same operator (and C07 helper functions)."""
import json
import numpy as np

import common
import opalg_lib as ol
import c03
import c04

PID = "C06"
LEVEL = "model_checking"
THR_FIX = 10.0        # |S + B A - I|_max in units of eps*cond_inf(A); clean-tree worst ~0.05
THR_WHITE = 1e-13     # residual-map rows of the colour updated last, relative to the row scale; clean worst ~1e-15
THR_PAIR = 10.0       # variant vs reference variant, units of eps*cond; clean worst ~0.02
THR_ENERGY = 1e-10


def _build():
    return c03._build()


def colour_rows(info, dirichlet):
    idx, nr, nt, C = info["idx"], info["nr"], info["nt"], info["circles"]
    rows = {"white_circle": [], "black_circle": [], "white_radial": [], "black_radial": []}
    for i in range(nr):
        for j in range(nt):
            k = idx[i, j]
            if i < C:
                rows["black_circle" if (C - 1 - i) % 2 == 0 else "white_circle"].append(k)
            else:
                rows["white_radial" if j % 2 == 1 else "black_radial"].append(k)
    return rows


def common_parts(r):
    Aref, pattern, dirichlet, info = ol.reference_A(r)
    A = ol.dense(r["A_take11"])
    N = A.shape[0]
    Ainv = np.linalg.inv(A)
    cond = np.abs(A).sum(axis=1).max() * np.abs(Ainv).sum(axis=1).max()
    return A, N, dirichlet, info, cond, ol.rowscale(A)


def oracle(s, r):
    viols, stats = [], {}
    A, N, dirichlet, info, cond, sc = common_parts(r)
    I = np.eye(N)
    rows = colour_rows(info, dirichlet)
    names = sorted(k[:-2] for k in r if k.startswith("Sm_") and k.endswith("_S"))
    ref = "Sm_take11"
    S0, B0 = r[ref + "_S"], r[ref + "_B"]
    free = ~dirichlet
    AII = A[np.ix_(free, free)]
    L = np.linalg.cholesky(0.5 * (AII + AII.T))
    Linv_T = np.linalg.inv(L.T)
    control_black = 0.0
    for nm in names:
        S, B = r[nm + "_S"], r[nm + "_B"]
        strat = nm[3:]
        if not (np.all(np.isfinite(S)) and np.all(np.isfinite(B))):
            viols.append(("nonfinite:" + strat, "%s produced non-finite values" % nm, {}))
            continue
        if nm + "_linx" in r:
            ld = ol.lin_deviation(S, r[nm + "_linx"], r[nm + "_liny"], B, r[nm + "_linf"])
            stats["worst_linearity"] = max(stats.get("worst_linearity", 0.0), ld)
            if not ld <= ol.LIN_TOL * max(1.0, cond * ol.EPS * 1e6):
                viols.append(("nonlinear:" + strat, "%s applied to generic (iterate, right-hand side) pairs of size O(1), 1e-20, 1e18 differs from "
                              "S x + B f by %.3g: the sweep is not affine (value-dependent shortcut?)" % (nm, ld), {"variant": nm}))
        # (a) every exact solution is a fixed point, for every right-hand side
        fx = float(np.abs(S + B @ A - I).max() / (ol.EPS * cond))
        stats["worst_fix"] = max(stats.get("worst_fix", 0.0), fx)
        if fx > THR_FIX:
            viols.append(("fixed-point:" + strat, "%s: S + B A != I (%.3g x eps*cond): the exact discrete solution is moved by a sweep"
                          % (nm, fx), {"variant": nm}))
        # (b) residual vanishes on the colour updated last
        Rm = np.abs(np.hstack([-A @ S, I - A @ B])) / sc[:, None]
        for cls in ("white_radial", "white_circle"):
            if rows[cls]:
                w = float(Rm[rows[cls]].max())
                stats["worst_" + cls] = max(stats.get("worst_" + cls, 0.0), w)
                if w > THR_WHITE:
                    k = rows[cls][int(np.argmax(Rm[rows[cls]].max(axis=1)))]
                    ri = c03._node(info, k)
                    viols.append(("white-residual:%s:%s:%s" % (strat, cls, c03._row_class(info, ri)),
                                  "%s: after a sweep the residual on %s node (%d,%d) is %.3g of the row scale (must vanish)"
                                  % (nm, cls, ri[0], ri[1], w), {"variant": nm, "row": ri}))
        for cls in ("black_radial", "black_circle"):
            if rows[cls]:
                control_black = max(control_black, float(Rm[rows[cls]].max()))
        # (c) Dirichlet nodes carry the prescribed data
        if np.abs(S[dirichlet]).max() != 0.0 or np.abs(B[dirichlet] - I[dirichlet]).max() != 0.0:
            viols.append(("dirichlet:" + strat, "%s: Dirichlet rows are not (S row = 0, B row = e_i) exactly" % nm, {"variant": nm}))
        # (d) all variants agree (strategies, cache flags, thread counts)
        dS = float(np.abs(S - S0).max() / max(1.0, np.abs(S0).max()) / (ol.EPS * cond))
        dB = float(np.abs(B - B0).max() / np.abs(B0).max() / (ol.EPS * cond))
        stats["worst_pair"] = max(stats.get("worst_pair", 0.0), dS, dB)
        if max(dS, dB) > THR_PAIR:
            viols.append(("variant-vs-take:" + strat, "%s differs from %s by %.3g x eps*cond" % (nm, ref, max(dS, dB)), {"variant": nm}))
        # (e) no error vector is amplified in the energy norm
        SII = S[np.ix_(free, free)]
        nrm = float(np.linalg.norm(L.T @ SII @ Linv_T, 2))
        stats["worst_energy"] = max(stats.get("worst_energy", 0.0), nrm)
        if nrm > 1.0 + THR_ENERGY:
            viols.append(("energy:" + strat, "%s: a sweep amplifies some error in the energy norm: ||S||_A = %.12g" % (nm, nrm), {"variant": nm}))
        stats["columns"] = stats.get("columns", 0) + 2 * N
    stats["variants"] = len(names)
    stats["worst_control_black"] = control_black
    if len(names) < 5:
        viols.append(("missing-variants", "expected >= 5 smoother variants, got %d" % len(names), {}))
    return viols, stats


def cases_for(tier):
    if tier == "thorough":
        return ol.lattice([5, 6, 7, 8, 9, 11, 13, 17], [4, 8, 12, 16, 20, 24, 32], "geo,A11,S,Scache", tier, need_nt4=True,
                          cycle_offsets=(0, 1), extra={"tlist": "1,3"}) + \
            ol.full_block([5, 7, 8], [4, 8, 12], "geo,A11,S,Scache", tier, need_nt4=True, extra={"tlist": "1,3"})
    return ol.lattice([5, 6, 7, 8, 9, 11], [4, 8, 12, 16], "geo,A11,S,Scache", tier, need_nt4=True, extra={"tlist": "1,3"})


def drive(pid, modname, cases, tier, rule, assumptions, extra_cov=None):
    rep = common.Reporter(pid, tier, LEVEL)
    binary = _build()
    results = ol.run_cases(binary, cases, modname, "oracle")
    tot, nontriv = {}, set()
    for s, viols, st in results:
        for k, v in st.items():
            if k.startswith("worst") or k.startswith("max"):
                tot[k] = max(tot.get(k, 0.0), v)
            elif k.startswith("min"):
                tot[k] = min(tot.get(k, 1e300), v)
            else:
                tot[k] = tot.get(k, 0) + v
        nontriv.add((s["nr"], s["nt"], s["circles"], s["dirbc"], s["geom"], s["alpha"], s["beta"], s["rpat"], s["tpat"]))
        for key, what, extra in viols:
            rp = ol.replay_record(s)
            rp.update(extra)
            rep.violation(key, what + "  [case %s]" % json.dumps(ol.spec_summary(s)), rp)
    hist_cov = ol.history_block(binary, [c for c in cases if not c["id"].startswith("f")], rep, n=(12 if tier == "thorough" else 8))
    cov = {
        "full_product_block_cases": sum(1 for c in cases if c["id"].startswith("f")),
        "full_product_block_rule": ol.FULL_BLOCK_RULE,
        "states": len(results), "transitions": int(tot.get("columns", 0)),
        "traces_validated_against_impl": int(tot.get("columns", 0)),
        "evaluations": len(results), "distinct_nontrivial": len(nontriv),
        "measured": {k: v for k, v in tot.items() if k != "columns"},
        "rule": rule,
        "samples": [ol.spec_summary(s) for s, _, _ in results[:3]],
        "exhaustive": True,
    }
    cov.update(extra_cov or {})
    cov.update(hist_cov)
    return rep.finish(cov, assumptions)


def main(tier):
    return drive(PID, "c06", cases_for(tier), tier,
                 "states = lattice cases (ntheta divisible by 4, >= 2 circles incl. both parities, >= 3 radial nodes, both "
                 "boundary modes); transitions = sweeps applied to unit iterates and unit right-hand sides (S and B columns) "
                 "for SmootherGive x 4 cache combinations and SmootherTake, each with 1 and 3 threads; worst_control_black is "
                 "the residual on the colour NOT updated last (must be far from zero, else the vanishing test is vacuous)",
                 ["a sweep is affine in (iterate, right-hand side): x' = S x + B f", "cond_inf(A) from numpy's inverse"],
                 {"thresholds": {"fixed_point": THR_FIX, "white_residual": THR_WHITE, "variants": THR_PAIR, "energy": THR_ENERGY}})


def replay(path):
    return c04._replay(path, "c06", PID)
