"""C19 shipped test problems are consistent manufactured solutions: the complete selection table, each class evaluated
on a generic point lattice against high-order numerical differentiation."""
import json

import common
import enumlib

PID = "C19"
LEVEL = "exploration"
TOL_JAC = 1e-7
TOL_JACR_CULHAM = 2e-4   # the Culham mapping is a piecewise-linear table (1000 cells): r-derivatives agree to table accuracy
TOL_RHS = 1e-5
TOL_BND = 1e-10
TOL_GYRO = 1e-12
PROB = {0: "CartesianR2", 1: "CartesianR6", 2: "PolarR6", 3: "Refined"}
GEOM = {0: "Circular", 1: "Shafranov", 2: "Czarny", 3: "Culham"}
PROF = {(0, 0): "Poisson", (0, 1): "Poisson", (1, 0): "Sonnendrucker", (1, 1): "SonnendruckerGyro", (2, 0): "Zoni", (2, 1): "ZoniGyro",
        (3, 0): "ZoniShifted", (3, 1): "ZoniShiftedGyro"}


def _build():
    common.build_lib("rel")
    return common.build_harness("c19_mms", "rel", ["c19_mms.cpp"])


def parse_rows(out):
    rows, skips = [], []
    for line in out.splitlines():
        if line.startswith("ROW "):
            d = {}
            for tok in line[4:].split():
                if "=" in tok:
                    k, v = tok.split("=", 1)
                    d[k] = v
            rows.append(d)
        elif line.startswith("SKIP "):
            skips.append(line[5:])
    return rows, skips


def judge(d):
    out = []
    g, p, a, b = int(d["geom"]), int(d["prob"]), int(d["alpha"]), int(d["beta"])
    want_src = "%s_%s_%sGeometry" % (PROB[p], PROF[(a, b)], GEOM[g])
    want_exact = "%s_%sGeometry" % (PROB[p], GEOM[g])
    want_bc = "%s_Boundary_%sGeometry" % (PROB[p], GEOM[g])
    want_coef = "%sCoefficients" % PROF[(a, b)]
    for have, want, what in ((d["src"], want_src, "source term"), (d["exact"], want_exact, "exact solution"),
                             (d["bc"], want_bc, "boundary conditions"), (d["coef"], want_coef, "coefficients"), (d["geo"], GEOM[g] + "Geometry", "geometry")):
        if have.lower() != want.lower():
            out.append(("selection:%s" % want, "selection table returns %s %s for options (geometry %d, problem %d, alpha %d, beta %d), "
                        "expected %s" % (what, have, g, p, a, b, want)))
    name = d["src"]
    if d.get("impure", "-") != "-":
        out.append(("impure:%s" % d["impure"], "the input function %s of this class set (%s / %s / %s / %s) returns different values at the same "
                    "point depending on which points were evaluated before" % (d["impure"], d["src"], d["geo"], d["coef"], d["bc"])))
    if float(d["jac"]) > TOL_JAC:
        out.append(("jacobian-theta:%s" % d["geo"], "%s: dFx_dt/dFy_dt differ from the theta-derivative of the mapping (Fx, Fy) by %.3g "
                    "(relative) at %s" % (d["geo"], float(d["jac"]), d["jacAt"])))
    if float(d["jacr"]) > (TOL_JACR_CULHAM if g == 3 else TOL_JAC):
        out.append(("jacobian-r:%s" % d["geo"], "%s: dFx_dr/dFy_dr differ from the r-derivative of the mapping (Fx, Fy) by %.3g "
                    "(relative) at %s" % (d["geo"], float(d["jacr"]), d["jacrAt"])))
    if g != 3:
        if float(d["rhs"]) > TOL_RHS:
            key = "F1:rhs:%s" % name if name.endswith("Poisson_CzarnyGeometry") else "rhs:%s" % name
            out.append((key, "%s: rhs_f differs from -div(alpha grad u) + beta u of %s by %.3g of the term magnitudes at %s"
                        % (name, d["exact"], float(d["rhs"]), d["rhsAt"])))
        if float(d["bnd"]) > TOL_BND:
            out.append(("boundary:%s" % d["bc"], "%s: boundary data differ from the exact solution %s by %.3g at %s"
                        % (d["bc"], d["exact"], float(d["bnd"]), d["bndAt"])))
    if float(d["gyro"]) > TOL_GYRO:
        out.append(("gyro:%s" % d["coef"], "%s: %s violated by %.3g" % (d["coef"], "beta*alpha = 1" if d["isgyro"] == "1" else "beta = 0",
                                                                     float(d["gyro"]))))
    return out


def main(tier):
    rep = common.Reporter(PID, tier, LEVEL)
    binary = _build()
    res = enumlib.run_enumerator(binary, "thorough", common.NCPU, timeout=3000)  # 24x32 lattice, two parameter points: seconds
    rows, skips = [], []
    for p, rc, out, err in res:
        if rc != 0:
            enumlib.crash_report(rep, "c19", p, rc, out, err)
        r, s = parse_rows(out)
        rows += r
        skips += s
    worst = {"jac": 0.0, "jacr_analytic": 0.0, "jacr_culham": 0.0, "rhs_healthy": 0.0, "bnd": 0.0, "gyro": 0.0}
    classes = set()
    points = 0
    for d in rows:
        classes.add(d["src"])
        points += int(d["points"])
        worst["jac"] = max(worst["jac"], float(d["jac"]))
        kj = "jacr_culham" if d["geom"] == "3" else "jacr_analytic"
        worst[kj] = max(worst[kj], float(d["jacr"]))
        if not d["src"].endswith("Poisson_CzarnyGeometry") and d["geom"] != "3":
            worst["rhs_healthy"] = max(worst["rhs_healthy"], float(d["rhs"]))
        worst["bnd"] = max(worst["bnd"], float(d["bnd"]))
        worst["gyro"] = max(worst["gyro"], float(d["gyro"]))
        for key, what in judge(d):
            rep.violation(key, what, {"spec": "geom=%s prob=%s alpha=%s beta=%s Rmax=%s kappa=%s delta=%s" %
                                      (d["geom"], d["prob"], d["alpha"], d["beta"], d["Rmax"], d["kappa"], d["delta"])})
    cov = {
        "evaluations": points,
        "distinct_nontrivial": len(classes),
        "selectable_quintuples": len(rows), "rejected_by_selection_table": len(skips),
        "worst_observed": worst,
        "thresholds": {"jacobian": TOL_JAC, "rhs": TOL_RHS, "boundary": TOL_BND, "gyro": TOL_GYRO},
        "rule": "every (geometry, problem, alpha, beta) option tuple is passed to the real selectTestCase(); every quintuple it "
                "returns is evaluated on a generic lattice of %s points (radii incl. 5e-3 Rmax and (1-1e-3) Rmax, angles never a "
                "multiple of pi/k): Jacobian vs 6th-order differences of Fx,Fy (Culham included), rhs_f vs nested 6th-order "
                "differences of the exact solution with the metric of the mapping, boundary data vs exact solution, gyro relation; "
                "distinct = distinct source-term classes" % "24x32",
        "samples": [{k: rows[0][k] for k in ("src", "exact", "coef", "geo", "rhs", "jac")}] if rows else ["none"],
        "exhaustive": True,
    }
    return rep.finish(cov, ["all functions are real-analytic: a wrong term vanishes on a null set only, the lattice is generic; the "
                            "continuum of points itself is not enumerable (level: exploration)",
                            "Culham: only the Jacobian/mapping consistency is required"])


def replay(path):
    binary = _build()
    spec = json.load(open(path))["replay"]["spec"]
    outs = []
    for _ in range(2):
        rc, out, err = common.run_probe(binary, ["replay"], stdin_text=spec + "\n")
        rows, _ = parse_rows(out)
        outs.append([judge(d) for d in rows])
    if outs[0] != outs[1]:
        print("replay is not deterministic; refusing to report")
        return 2
    bad = [x for j in outs[0] for x in j]
    for k, w in bad:
        print("  [%s] %s" % (k, w))
    if bad:
        print("VIOLATION property=%s replay=%s" % (PID, path))
        return 1
    print("replay: property held")
    return 0
