"""C01 solve() converges, and a reported convergence is true.  Option-lattice enumeration of the assembled solver."""
import itertools
import json

import common
import gmg_lib as gl

PID = "C01"
LEVEL = "exploration"
SLACK = 1.05
ROUNDING_FLOOR = 1e-11
AJ = {0: 0.5, 1: 0.66, 2: 0.4837, 3: 0.7081}
GEOP = {0: (0.0, 0.0), 1: (0.3, 0.2), 2: (0.3, 1.4)}
PROFILES = [(0, 0), (1, 0), (1, 1), (2, 0), (2, 1), (3, 0), (3, 1)]


def _build():
    common.build_lib("rel")
    return common.build_harness("gmg", "rel", ["gmg.cpp"])


def base(geom=0, prob=0, alpha=1, beta=0, dirbc=0, strat=0, extr=0, cycle=0, **kw):
    k, d = GEOP[geom]
    cfg = dict(mode="solve", geom=geom, prob=prob, alpha=alpha, beta=beta, Rmax=1.3, R0=1e-5, kappa=k, delta=d,
               ajump=AJ[alpha] * 1.3, nr_exp=4, ntheta_exp=5, aniso=0, div2=0, dirbc=dirbc, fmg=0, fmg_it=2, fmg_cycle=0,
               extr=extr, maxlev=-1, pre=1, post=1, cycle=cycle, maxit=150, norm=0, abstol=1e-8, reltol=1e-8, threads=1,
               strat=strat, cc=1, cg=1, exact=1, tfactor=1.0, indep=1)
    cfg.update(kw)
    return cfg


def deviations():
    devs = []
    for fc in (0, 1, 2):
        for fi in (1, 2, 3):
            devs.append(dict(fmg=1, fmg_cycle=fc, fmg_it=fi))
    devs += [dict(pre=2, post=1), dict(pre=1, post=2), dict(pre=2, post=2)]
    # one-sided smoothing (pre- or post-smoothing only) is an ordinary multigrid configuration: it is where a swapped step counter shows
    devs += [dict(pre=0, post=1), dict(pre=0, post=2), dict(pre=1, post=0), dict(pre=2, post=0), dict(pre=0, post=3), dict(pre=3, post=0)]
    devs += [dict(maxlev=2), dict(maxlev=3)]
    devs += [dict(norm=1), dict(norm=2)]
    devs += [dict(abstol=1e-8, reltol=-1.0), dict(abstol=-1.0, reltol=1e-8), dict(abstol=1e-6, reltol=1e-6)]
    # which tolerance ends the iteration, and where in the residual history, decides what a wrong stop test gets away with
    for a in (1e-4, 1e-5, 1e-6, 1e-7, 1e-9, 1e-10):
        devs.append(dict(abstol=a, reltol=-1.0))
    for r_ in (1e-4, 1e-6, 1e-10):
        devs.append(dict(abstol=-1.0, reltol=r_))
    devs += [dict(abstol=1e-6, reltol=1e-10), dict(abstol=1e-10, reltol=1e-6), dict(abstol=1e-5, reltol=1e-9, norm=1),
             dict(abstol=1e-7, reltol=-1.0, norm=2), dict(abstol=-1.0, reltol=1e-7, norm=1)]
    devs += [dict(nr_exp=5, ntheta_exp=6), dict(div2=1), dict(aniso=2), dict(aniso=3), dict(ntheta_exp=6), dict(nr_exp=5)]
    devs += [dict(threads=4, tfactor=0.5), dict(threads=3, tfactor=1.0)]
    # verbosity is an option like any other: the iteration must not depend on what is printed
    devs += [dict(verbose=1), dict(verbose=2)]
    # a non-uniform grid (radii and angles) loaded from files, as a user with an own mesh supplies it
    devs += [dict(gridfile=6)]
    # other geometry parameters than the shipped defaults, one of them orientation reversing (det DF < 0 everywhere for Shafranov
    # with kappa > 1), and an annulus with a large hole
    # (kappa_eps / delta_e mean different things per geometry: '_geom' restricts a deviation to cores with that geometry)
    devs += [dict(kappa=1.5, delta=0.1, _geom=1), dict(kappa=0.1, delta=0.05, _geom=1), dict(kappa=0.1, delta=1.0, _geom=2), dict(R0=0.1),
             dict(R0=1e-2, Rmax=1.0)]
    return devs


def give_cache_devs():
    return [dict(cc=0, cg=0), dict(cc=0, cg=1), dict(cc=1, cg=0)]


def enumerate_cases(tier):
    cases = []
    # core product on 17 x 32
    for geom, prob, (alpha, beta), dirbc, strat, extr, cycle in itertools.product(
            (0, 1, 2), (0, 1, 2), PROFILES, (0, 1), (0, 1), (0, 1, 3), (0, 1, 2)):
        cases.append(("core", base(geom, prob, alpha, beta, dirbc, strat, extr, cycle)))
    # full-grid-smoothing mode 2: only the "a reported stop is true" half
    for geom, prob, (alpha, beta), dirbc, strat, cycle in itertools.product((0, 1, 2), (0, 2), PROFILES[1::2], (0, 1), (0, 1), (0, 1, 2)):
        cases.append(("mode2", base(geom, prob, alpha, beta, dirbc, strat, 2, cycle)))
    # two-level hierarchies take the direct-solve branch of every cycle function: full product of the cycle-related options
    for (alpha, beta), dirbc, strat, extr, cycle, fmg in itertools.product(((1, 0), (3, 1)), (0, 1), (0, 1), (0, 1, 3), (0, 1, 2), (0, 1)):
        cases.append(("twolevel", base(1 + dirbc, 2 - dirbc, alpha, beta, dirbc, strat, extr, cycle, maxlev=2, fmg=fmg, fmg_cycle=cycle)))
    # deviations from representative cores
    cores = [dict(), dict(geom=1, prob=2, alpha=2, beta=1, strat=1, extr=1), dict(geom=2, prob=1, alpha=3, beta=0, dirbc=1, extr=3, cycle=1),
             dict(geom=2, prob=2, alpha=3, beta=1, strat=1, extr=1, cycle=2), dict(geom=1, prob=0, alpha=0, beta=0, dirbc=1, strat=1),
             dict(geom=0, prob=2, alpha=2, beta=0, extr=1, cycle=1)]
    all_devs = deviations()

    def single_only(d):
        # deviations that leave the neighbourhood of the shipped configurations on their own - one-sided smoothing (a single sweep on one
        # side only is a weak smoother), non-default geometry parameters, a large hole: each converges as a single deviation from every
        # core on the tree as given, but the solver makes no promise for their COMBINATIONS with further deviations (the first thorough
        # run with them in the pair / triple product reported 350 non-convergent combinations on the unchanged tree: corrected here)
        return (d.get("pre") == 0 or d.get("post") == 0) or "kappa" in d or "R0" in d

    for ci, core in enumerate(cores):
        devs1 = [{k: v for k, v in d.items() if k != "_geom"} for d in all_devs if d.get("_geom", core.get("geom", 0)) == core.get("geom", 0)]
        devs = [d for d in devs1 if not single_only(d)]
        for d in devs1:
            c = base(**core)
            c.update(d)
            cases.append(("dev1", c))
        if core.get("strat", 0) == 1:
            for d in give_cache_devs():
                c = base(**core)
                c.update(d)
                cases.append(("dev1", c))
                c = dict(c)
                c.update(gridfile=6)   # the uncached paths on a non-uniform grid
                cases.append(("dev2", c))
        if tier == "thorough" or ci in (1, 3):
            for d1, d2 in itertools.combinations(devs, 2):
                if set(d1) & set(d2):
                    continue
                c = base(**core)
                c.update(d1)
                c.update(d2)
                cases.append(("dev2", c))
    if tier == "thorough":
        # deviation bound 3 from every core
        for ci in range(len(cores)):
            g = cores[ci].get("geom", 0)
            devs = [{k: v for k, v in d.items() if k != "_geom"} for d in all_devs if d.get("_geom", g) == g and not single_only(d)]
            for d1, d2, d3 in itertools.combinations(devs, 3):
                if (set(d1) & set(d2)) or (set(d1) & set(d3)) or (set(d2) & set(d3)):
                    continue
                c = base(**cores[ci])
                c.update(d1)
                c.update(d2)
                c.update(d3)
                cases.append(("dev3", c))
        for geom, prob, (alpha, beta), dirbc, strat, extr, cycle in itertools.product(
                (0, 1, 2), (0, 1, 2), PROFILES, (0, 1), (0, 1), (0, 1, 3), (0, 1, 2)):
            cases.append(("core33", base(geom, prob, alpha, beta, dirbc, strat, extr, cycle, nr_exp=5, ntheta_exp=6)))
    # grids above the 10 000-node threshold behind which the assembly loops, transfers and vector kernels start a thread team
    # (129x256 = 33 024 nodes; its first coarse level 65x128 = 8 320 stays below), with 1 and 3 threads
    k = 0
    for strat, extr, threads in itertools.product((0, 1), (0, 1, 3), (3, 1)):
        if tier != "thorough" and threads == 1 and extr != 1:
            continue
        alpha, beta = PROFILES[1 + k % 6]
        cases.append(("large", base(k % 3, (k + 1) % 3, alpha, beta, k % 2, strat, extr, (0, 2, 1)[k % 3], div2=3, threads=threads,
                                    fmg=k % 2, maxit=80)))
        k += 1
    return cases


def cfg_key(cfg):
    return "g%d:p%d:a%d%d:bc%d:s%d:e%d:c%d" % (cfg["geom"], cfg["prob"], cfg["alpha"], cfg["beta"], cfg["dirbc"], cfg["strat"],
                                             cfg["extr"], cfg["cycle"])


def short(cfg):
    b = base()
    return {k: v for k, v in cfg.items() if k in ("geom", "prob", "alpha", "beta", "dirbc", "strat", "extr", "cycle") or b.get(k) != v}


def judge(kind, cfg, r):
    """returns list of (key, what)"""
    out = []
    if r.get("status") == "crash":
        return [("crash:%s" % r.get("kind"), "solver run died: %s" % gl.crash_line(r.get("stderr")))]
    if r.get("status") != "ok":
        return [("exception", "setup()/solve() threw: %s" % r.get("what"))]
    its = int(r["its"])
    rho = gl.num(r, "rhod")
    finite = r.get("finite") == "1"
    maxit = cfg["maxit"]
    if not finite:
        out.append(("nonfinite", "solution contains non-finite values"))
        return out
    if kind != "mode2":
        lastres = gl.num(r, "lastres")
        # a request below the rounding level of f - A u (about 1e-12 absolute for these problems; it arises when a tight
        # RELATIVE tolerance meets the small start residual of an FMG start vector) cannot be met by any solver
        at_rounding_level = lastres is not None and lastres <= ROUNDING_FLOOR
        if its >= maxit and not at_rounding_level:
            out.append(("no-convergence", "no convergence within %d iterations (last residual %s)" % (maxit, r.get("lastres"))))
        # a solve that needs no iteration (the FMG start vector already meets a loose tolerance) has no reduction factor
        if its >= 1 and not at_rounding_level and not (rho is not None and rho < 1.0):
            out.append(("reduction-factor", "mean residual reduction factor is %r (must be < 1)" % rho))
    if its < maxit:
        indep, indep0 = gl.num(r, "indep"), gl.num(r, "indep0")
        ok = False
        if cfg["abstol"] >= 0 and indep <= SLACK * cfg["abstol"]:
            ok = True
        if cfg["reltol"] >= 0 and indep0 and indep / indep0 <= SLACK * cfg["reltol"]:
            ok = True
        if cfg["abstol"] < 0 and cfg["reltol"] < 0:
            ok = True
        # two evaluations of f - A u (the solver's and the independent one, which uses the other strategy's operator) differ by
        # rounding of the order of ROUNDING_FLOOR / 10: a residual that small cannot be compared with a tolerance to within 5 %
        if indep is not None and indep <= ROUNDING_FLOOR:
            ok = True
        if not ok:
            out.append(("false-stop:e%d:n%d" % (cfg["extr"], cfg["norm"]),
                        "solve() stopped after %d iterations but the independently recomputed residual norm is %.3g "
                        "(initial %.3g, ratio %.3g): neither tolerance (abs %g, rel %g) is met" %
                        (its, indep, indep0, indep / indep0 if indep0 else float("nan"), cfg["abstol"], cfg["reltol"])))
    return out


def main(tier):
    rep = common.Reporter(PID, tier, LEVEL)
    binary = _build()
    cases = enumerate_cases(tier)
    lines = [("c%05d" % i, gl.line_of("c%05d" % i, cfg)) for i, (kind, cfg) in enumerate(cases)]
    res = gl.run_cases(binary, lines)
    nviol = 0
    worst_rho, worst_its, early, margins = 0.0, 0, 0, []
    distinct = set()
    for i, (kind, cfg) in enumerate(cases):
        r = res.get("c%05d" % i, {"status": "crash", "kind": "missing", "stderr": ""})
        for key, what in judge(kind, cfg, r):
            rep.violation("%s:%s" % (key, cfg_key(cfg)) if key.startswith(("no-conv", "reduction", "nonfinite")) else key + ":" + kind,
                          what + "  [config %s]" % json.dumps(short(cfg)), {"config": cfg, "kind": kind, "result": {k: v for k, v in r.items() if k != "stderr"}})
        if r.get("status") == "ok":
            distinct.add((r.get("its"), r.get("sol")))
            if kind != "mode2":
                worst_rho = max(worst_rho, gl.num(r, "rhod", 0.0) or 0.0)
                worst_its = max(worst_its, int(r["its"]))
            if int(r["its"]) < cfg["maxit"]:
                early += 1
    # what is printed must not change what is computed: cases that differ in the verbosity only give bit-identical outcomes
    groups = {}
    for i, (kind, cfg) in enumerate(cases):
        r = res.get("c%05d" % i, {})
        if r.get("status") == "ok":
            k = json.dumps({a: b for a, b in cfg.items() if a != "verbose"}, sort_keys=True)
            groups.setdefault(k, []).append((cfg.get("verbose", 0), r.get("its"), r.get("rho"), r.get("sol"), cfg, r))
    verb_groups = 0
    for g in groups.values():
        if len({x[0] for x in g}) < 2:
            continue
        verb_groups += 1
        ref = min(g, key=lambda x: x[0])
        for x in g:
            if x[1:4] != ref[1:4]:
                rep.violation("verbosity-dependent:%s" % cfg_key(x[4]), "verbose=%s gives iterations/reduction factor/solution %s, verbose=%s gives %s"
                              "  [config %s]" % (x[0], x[1:4], ref[0], ref[1:4], json.dumps(short(x[4]))),
                              {"config": x[4], "kind": "verbosity", "other": ref[4]})
    # process history: whole solves, every ordered pair of representatives in one process against the fresh process
    reps = []
    for strat, extr, cycle in itertools.product((0, 1), (0, 1, 2, 3), (0, 2)):
        cfg = base(1, 2, 2, 1, cycle // 2, strat, extr, cycle, fmg=(1 if extr == 1 else 0))
        cfg["indep"] = 0
        reps.append(("strategy %d, extrapolation %d, cycle %d" % (strat, extr, cycle), gl.line_of("h", cfg)))
    cfg = base(2, 1, 3, 0, 1, 0, 1, 1, div2=1)
    cfg["indep"] = 0
    reps.append(("33x64 take implicit W", gl.line_of("h", cfg)))
    hist_cov = gl.process_history(binary, reps, rep, "solve")
    cov = {
        "evaluations": len(cases),
        "verbosity_groups_compared": verb_groups,
        "distinct_nontrivial": len(distinct),
        "stopped_early": early,
        "worst_reduction_factor": worst_rho,
        "most_iterations": worst_its,
        "by_kind": {k: sum(1 for kk, _ in cases if kk == k) for k in sorted(set(k for k, _ in cases))},
        "rule": "full cross product {Circular,Shafranov,Czarny} x {CartesianR2,CartesianR6,PolarR6} x 7 coefficient classes x "
                "interior boundary x strategy x extrapolation {none,implicit,combined} x cycle {V,W,F} on 17x32, plus every "
                "single deviation (quick) / pair of deviations (thorough) from 6 representative cores in: FMG x FMG cycle x FMG "
                "iterations, smoothing steps, level caps, norm type, tolerance pairs, grid size/anisotropy, cache flags, thread "
                "count and reduction; extrapolation mode 2 only for the 'a reported stop is true' half.  distinct = distinct "
                "(iterations, solution hash) outcomes",
        "samples": [short(cfg) for _, cfg in cases[:2]] + [short(cfg) for _, cfg in cases[-2:]],
        "bounds": "deviation bound %s; grids 17x32%s" % ("3 for all six cores" if tier == "thorough" else "1 for all cores, 2 for two of them", ", 33x64" if tier == "thorough" else " (33x64 and anisotropic as deviations)"),
        "exhaustive": True,
    }
    cov.update(hist_cov)
    return rep.finish(cov, ["independent residual: own grid copy, freshly selected input functions, own right-hand side, the "
                            "other strategy's residual operator, own coarse level/injection/combination (harness/gmgcfg.h)",
                            "slack factor %.2f on the tolerance" % SLACK])


def replay(path):
    rp = json.load(open(path))["replay"]
    binary = _build()
    if rp.get("kind") == "process-history":
        return gl.replay_process_history(binary, rp, PID, path)
    cfg, kind = rp["config"], rp.get("kind", "core")
    if kind == "verbosity":
        outs = []
        for _ in range(2):
            res = gl.run_cases(binary, [("r0", gl.line_of("r0", cfg)), ("r1", gl.line_of("r1", rp["other"]))], chunk=1)
            outs.append([tuple(res.get(t, {}).get(f) for f in ("its", "rho", "sol")) for t in ("r0", "r1")])
        if outs[0] != outs[1]:
            print("replay is not deterministic; refusing to report")
            return 2
        print(outs[0])
        if outs[0][0] != outs[0][1]:
            print("VIOLATION property=%s replay=%s" % (PID, path))
            return 1
        print("replay: property held")
        return 0
    outs = []
    for _ in range(2):
        res = gl.run_cases(binary, [("r0", gl.line_of("r0", cfg))])
        outs.append(judge(kind, cfg, res.get("r0", {})))
    if [k for k, _ in outs[0]] != [k for k, _ in outs[1]]:
        print("replay is not deterministic; refusing to report")
        return 2
    for k, w in outs[0]:
        print("  [%s] %s" % (k, w))
    if outs[0]:
        print("VIOLATION property=%s replay=%s" % (PID, path))
        return 1
    print("replay: property held")
    return 0
