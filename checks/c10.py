"""C10 each multigrid cycle is a consistent correction scheme: the six private cycle functions called directly."""
import itertools
import json

import common
import gmg_lib as gl
import c01

PID = "C10"
LEVEL = "model_checking"
THR_FIX = 5e-9        # relative move of the exact solution under one cycle; clean tree: see evidence
MIN_CONTROL = 1e-6    # the plain discrete solution under an extrapolated cycle must move at least this much
THR_ALG = 1e-11
CYC = {0: "V", 1: "W", 2: "F"}


def _build():
    common.build_lib("rel")
    common.build_lib("san")
    return common.build_harness("gmg", "rel", ["gmg.cpp"]), common.build_harness("gmg", "san", ["gmg.cpp"])


def cases(tier):
    out = []
    shapes = [(2, dict(nr_exp=3, ntheta_exp=4, maxlev=-1)), (3, dict(nr_exp=4, ntheta_exp=5, maxlev=-1)), (2, dict(nr_exp=4, ntheta_exp=5, maxlev=2))]
    if tier == "thorough":
        shapes += [(4, dict(nr_exp=5, ntheta_exp=6, maxlev=-1)), (3, dict(nr_exp=5, ntheta_exp=6, maxlev=3))]
    problems = [dict(geom=0, prob=2, alpha=1, beta=0), dict(geom=1, prob=0, alpha=2, beta=1), dict(geom=2, prob=2, alpha=3, beta=1),
                dict(geom=2, prob=1, alpha=1, beta=1), dict(geom=1, prob=2, alpha=0, beta=0)]
    k = 0
    for (L, shape), cyc, extr, pre, post, strat, dirbc in itertools.product(shapes, (0, 1, 2), (0, 1), (0, 1, 2), (0, 1, 2), (0, 1), (0, 1)):
        if tier != "thorough" and L == 3 and shape["nr_exp"] == 4 and (pre + post) not in (0, 2, 4) :
            continue
        cfg = c01.base(strat=strat, dirbc=dirbc, extr=extr, cycle=cyc, **problems[k % len(problems)])
        k += 1
        cfg.update(shape)
        cfg.update(mode="cycle", pre=pre, post=post, seed=common.SEED, do_exact=1, do_alg=1)
        cfg.pop("indep", None)
        out.append(cfg)
    if tier != "thorough":
        # four levels (33x32 -> 17x16 -> 9x8 -> 5x4): the level indices handed to the transfers and smoothers on the two intermediate
        # levels; a slice of the smoothing counts (the thorough tier has the full product on 33x64)
        for cyc, extr, (pre, post), strat, dirbc in itertools.product((0, 1, 2), (0, 1), ((1, 1), (0, 1), (2, 0)), (0, 1), (0, 1)):
            cfg = c01.base(strat=strat, dirbc=dirbc, extr=extr, cycle=cyc, **problems[k % len(problems)])
            k += 1
            cfg.update(nr_exp=5, ntheta_exp=5, maxlev=-1, mode="cycle", pre=pre, post=post, seed=common.SEED, do_exact=1, do_alg=1)
            cfg.pop("indep", None)
            out.append(cfg)
    return out


def judge(cfg, r):
    out = []
    tag = "%s%s:L%s" % (CYC[cfg["cycle"]], "ex" if cfg["extr"] else "", r.get("levels", "?"))
    if r.get("status") == "crash":
        return [("crash:%s:%s" % (r.get("kind"), tag), "cycle run died: %s" % gl.crash_line(r.get("stderr")))]
    if r.get("status") != "ok":
        return [("exception:" + tag, "threw: %s" % r.get("what"))]
    if r.get("finite") != "1":
        out.append(("nonfinite:" + tag, "a cycle produced non-finite values"))
    if "fixmove" in r:
        mv = gl.num(r, "fixmove")
        if r.get("solved") != "1":
            out.append(("reference-singular:" + tag, "dense reference system is singular"))
        elif not (mv <= THR_FIX):
            out.append(("fixed-point:%s:pre%d:post%d" % (tag, cfg["pre"], cfg["post"]),
                        "started from the exact solution of the %s system, one %s-cycle moved it by %.3g (relative)" %
                        ("extrapolated" if cfg["extr"] else "discrete", CYC[cfg["cycle"]], mv)))
        if cfg["extr"] and "controlmove" in r and not (gl.num(r, "controlmove") >= MIN_CONTROL):
            out.append(("control:" + tag, "control failed: the plain discrete solution did not move under the extrapolated cycle (%.3g): "
                        "the fixed-point test would be vacuous" % gl.num(r, "controlmove")))
    if r.get("repeat") != "1":
        out.append(("repeat:" + tag, "two consecutive cycles from the same start vector differ on one object (state left behind by the first)"))
    if r.get("scratch") != "1":
        out.append(("scratch:%s:pre%d:post%d" % (tag, cfg["pre"], cfg["post"]),
                    "the result of a cycle depends on the old contents of the work vectors (difference %.3g)" % gl.num(r, "scratchdiff", -1)))
    if "compworst" in r:
        if not (gl.num(r, "compworst") <= THR_ALG):
            out.append(("composition:%s:pre%d:post%d" % (tag, cfg["pre"], cfg["post"]),
                        "the cycle with %d pre- and %d post-smoothing steps differs from the reference cycle composed from the levels' public "
                        "smoother / residual / transfer / coarse-solve operators (harness-owned vectors) by %.3g (relative)" %
                        (cfg["pre"], cfg["post"], gl.num(r, "compworst"))))
    if "algworst" in r:
        if not (gl.num(r, "algworst") <= THR_ALG):
            out.append(("algebraic-correction:" + tag, "without smoothing the two-level cycle differs from u + P A_c^-1 R (f - A u) formed "
                        "from the public operators by %.3g (relative), worst column %s of %s" % (gl.num(r, "algworst"), r.get("algcol"), r.get("algcols"))))
    return out


def main(tier):
    rep = common.Reporter(PID, tier, LEVEL)
    rel, san = _build()
    cs = cases(tier)
    lines = [("k%05d" % i, gl.line_of("k%05d" % i, cfg)) for i, cfg in enumerate(cs)]
    res = gl.run_cases(rel, lines, chunk=6)
    sl = [(cid, l + " do_exact=0") for (cid, l), cfg in zip(lines, cs) if cfg["nr_exp"] == 3][::4]
    res_san = gl.run_cases(san, sl, chunk=4)
    worst_fix, min_control, worst_alg, algcols, transitions = 0.0, 1e9, 0.0, 0, 0
    worst_comp = 0.0
    for i, cfg in enumerate(cs):
        cid = "k%05d" % i
        for rr, build in ((res.get(cid, {"status": "crash", "kind": "missing"}), "rel"),) + (((res_san[cid], "san"),) if cid in res_san else ()):
            for key, what in judge(cfg, rr):
                rep.violation(key, what + "  [%s build, config %s]" % (build, json.dumps(c01.short(cfg))), {"config": cfg, "build": build})
            if rr.get("status") == "ok" and build == "rel":
                transitions += 5 + int(rr.get("algcols", 0))
                if "fixmove" in rr:
                    worst_fix = max(worst_fix, gl.num(rr, "fixmove"))
                if "controlmove" in rr:
                    min_control = min(min_control, gl.num(rr, "controlmove"))
                if "compworst" in rr:
                    worst_comp = max(worst_comp, gl.num(rr, "compworst"))
                if "algworst" in rr:
                    worst_alg = max(worst_alg, gl.num(rr, "algworst"))
                    algcols += int(rr["algcols"])
    # process history: extrapolated and plain cycles of every type, with every smoothing mode of the extrapolated cycle (implicit,
    # full-grid, combined before its switch) as the earlier case of the same process
    reps = []
    for cyc, extr in itertools.product((0, 1, 2), (0, 1, 2, 3)):
        cfg = c01.base(strat=1, dirbc=cyc % 2, extr=extr, cycle=cyc, geom=1, prob=2, alpha=2, beta=1)
        cfg.update(nr_exp=4, ntheta_exp=5, maxlev=-1, mode="cycle", pre=1, post=1, seed=common.SEED, do_exact=(1 if extr in (0, 1) else 0), do_alg=0)
        cfg.pop("indep", None)
        name = "%s-cycle, extrapolation %d" % (CYC[cyc], extr)
        reps.append((name, gl.line_of("h", cfg)))
    hist_cov = gl.process_history(rel, reps, rep, "cycle")
    cov = {
        "states": len(cs), "transitions": transitions, "traces_validated_against_impl": transitions,
        "evaluations": len(cs), "distinct_nontrivial": len(cs),
        "worst_fixed_point_move": worst_fix, "smallest_control_move": min_control, "worst_algebraic_difference": worst_alg,
        "algebraic_columns": algcols, "worst_composition_difference": worst_comp, "sanitizer_slice": len(sl),
        "thresholds": {"fixed_point": THR_FIX, "control_min": MIN_CONTROL, "algebraic": THR_ALG},
        "rule": "states = (levels L in {2,3(,4)} via grid size / level cap) x {V,W,F} x {plain, implicitly extrapolated} x pre,post in "
                "{0,1,2}^2 x strategy x interior boundary, problems cycled; transitions = cycle calls: from the dense exact solution of "
                "the (extrapolated) system, twice from a generic start, once on an object with dirty work vectors, and for L=2 without "
                "smoothing on every unit iterate and unit right-hand side against u + P A_c^-1 R(f - A u) resp. the extrapolated formula",
        "samples": [c01.short(cs[0]), c01.short(cs[-1])],
        "exhaustive": True,
    }
    cov.update(hist_cov)
    return rep.finish(cov, ["dense Gaussian elimination (harness) for the reference solution", "the extrapolated system: (Au)_i = f_i at "
                            "fine-only nodes, 4(Au)_i - (A_c J u)_c = 4 f_i - (f_c)_c at nodes shared with the coarse grid"])


def replay(path):
    rp = json.load(open(path))["replay"]
    if rp.get("kind") == "process-history":
        return gl.replay_process_history(_build()[0], rp, PID, path)
    rel, san = _build()
    cfg = rp["config"]
    b = san if rp.get("build") == "san" else rel
    outs = []
    for _ in range(2):
        res = gl.run_cases(b, [("r0", gl.line_of("r0", cfg) + (" do_exact=0" if rp.get("build") == "san" else ""))])
        outs.append(judge(cfg, res.get("r0", {})))
    if [k for k, _ in outs[0]] != [k for k, _ in outs[1]]:
        print("replay is not deterministic; refusing to report")
        return 2
    for k, w in outs[0]:
        print("  [%s] %s" % (k, w))
    if outs[0]:
        print("VIOLATION property=%s replay=%s" % (PID, path))
        return 1
    print("replay: property held")
    return 0
