"""Build + drive the OpenMP schedule explorer (engines/mcomp) and its free-running differential."""
import os
import shutil
import tempfile
from concurrent.futures import ThreadPoolExecutor

import numpy as np

import common
import gmg_lib as gl
import opalg_lib as ol


def build():
    """returns (engine_binary, free_binary)"""
    bdir = common.build_lib("tsl")
    hdir = os.path.join(common.BUILD, "harness-tsl")
    os.makedirs(hdir, exist_ok=True)
    libs = common.lib_paths(bdir)
    inc = ["-I", os.path.join(common.REPO, "include"), "-I", os.path.join(common.VERIF, "harness"), "-I", os.path.join(common.VERIF, "engines")]
    tsan = common.FLAVOURS["tsl"]["cxx"].split()
    src_h = os.path.join(common.VERIF, "harness", "mc_harness.cpp")
    src_e = os.path.join(common.VERIF, "engines", "mcomp", "mcomp.cpp")
    src_s = os.path.join(common.VERIF, "engines", "mcomp", "tsan_stub.cpp")
    eng, free = os.path.join(hdir, "mc_engine"), os.path.join(hdir, "mc_free")
    deps = [src_h, src_e, src_s, os.path.join(common.REPO, "include"), os.path.join(common.VERIF, "harness"),
            os.path.join(common.VERIF, "engines")] + libs
    with common._Lock(os.path.join(hdir, "mc.lock")):
        newest = common._newest_mtime(deps)
        if os.path.exists(eng) and os.path.exists(free) and min(os.path.getmtime(eng), os.path.getmtime(free)) >= newest:
            return eng, free
        steps = [
            # runtime and stubs: NOT instrumented
            ["g++", "-std=c++20", "-O2", "-g", "-c", src_e, "-o", os.path.join(hdir, "mcomp.o")] + inc,
            ["g++", "-std=c++20", "-O2", "-c", src_s, "-o", os.path.join(hdir, "tsan_stub.o")],
            # harness: instrumented like the library
            ["g++", "-std=c++20", "-fno-access-control", "-fopenmp"] + tsan + inc + ["-c", src_h, "-o", os.path.join(hdir, "mc_harness.o")],
            ["g++", "-std=c++20", "-fno-access-control", "-fopenmp", "-DMCOMP_FREE"] + tsan + inc + ["-c", src_h, "-o", os.path.join(hdir, "mc_harness_free.o")],
        ]
        def run_step(cmd):
            r = common.run(cmd)
            if r.returncode != 0:
                raise common.BuildError("mcomp build step failed: %s\n%s" % (" ".join(cmd[:8]), r.stdout[-4000:]))
        with ThreadPoolExecutor(max_workers=4) as ex:
            list(ex.map(run_step, steps))
        # link WITHOUT libtsan and WITHOUT libgomp: the runtime provides GOMP_*, omp_*, __tsan_*, memcpy/memmove/memset, new/delete
        run_step(["g++", "-no-pie", os.path.join(hdir, "mc_harness.o"), os.path.join(hdir, "mcomp.o")] + libs + ["-o", eng])
        # free-running: real libgomp, no-op instrumentation
        run_step(["g++", os.path.join(hdir, "mc_harness_free.o"), os.path.join(hdir, "tsan_stub.o")] + libs + ["-fopenmp", "-o", free])
        common.log("[build] mcomp engine + free-running differential")
    return eng, free


def run(binary, cases, timeout=3000, chunk=None, jobs=None, env=None):
    """cases: list of (id, line) -> ({id: RES dict}, {id: {'y': array, 's': array}})"""
    tmpdir = tempfile.mkdtemp(prefix="mc", dir=common.BUILD)
    res, vecs = {}, {}
    try:
        n = len(cases)
        jobs = jobs or common.NCPU
        cs = chunk or max(1, min(16, (n + jobs * 3 - 1) // (jobs * 3)))
        chunks = [cases[i:i + cs] for i in range(0, n, cs)]

        def work(args):
            wi, ch = args
            lres, lvec = {}, {}
            todo = list(ch)
            rounds = 0
            while todo and rounds <= len(ch):
                rounds += 1
                rp = os.path.join(tmpdir, "r%d_%d.txt" % (wi, rounds))
                bp = os.path.join(tmpdir, "b%d_%d.bin" % (wi, rounds))
                e = {"OMP_NUM_THREADS": "1", "OMP_DYNAMIC": "false"}
                e.update(env or {})
                rc, so, se = common.run_probe(binary, [rp, bp], stdin_text="\n".join(l for _, l in todo) + "\n", timeout=timeout, env=e)
                r, begun = gl.parse_res(rp)
                try:
                    recs = ol.group_by_case(ol.read_records(bp)) if os.path.exists(bp) else {}
                except Exception:
                    recs = {}
                for f in (rp, bp):
                    if os.path.exists(f):
                        os.unlink(f)
                for cid, _ in todo:
                    if cid in r:
                        lres[cid] = r[cid]
                        lvec[cid] = recs.get(cid, {})
                missing = [(cid, l) for cid, l in todo if cid not in r]
                if not missing:
                    break
                culprit = next((cid for cid, _ in missing if cid in begun), missing[0][0])
                kind = gl.crash_kind(se, rc)
                if rc == 87:
                    kind = "deadlock"
                elif rc == 86:
                    kind = "unsupported-construct"
                lres[culprit] = {"id": culprit, "status": "crash", "rc": str(rc), "stderr": (se or "")[-2000:], "kind": kind}
                todo = [(cid, l) for cid, l in missing if cid != culprit]
            return lres, lvec

        with ThreadPoolExecutor(max_workers=jobs) as ex:
            for lr, lv in ex.map(work, list(enumerate(chunks))):
                res.update(lr)
                vecs.update(lv)
        return res, vecs
    finally:
        shutil.rmtree(tmpdir, ignore_errors=True)


def symbolize(binary, pcs):
    """pc strings ('0x4a3f12') -> (function, file:line); the engine binary is linked -no-pie so addresses are static"""
    pcs = [p for p in pcs if p and p not in ("0", "(nil)")]
    if not pcs:
        return {}
    r = common.run(["addr2line", "-e", binary, "-f", "-C", "-s"] + pcs)
    lines = r.stdout.splitlines()
    out = {}
    for i, pc in enumerate(pcs):
        fn = lines[2 * i] if 2 * i < len(lines) else "?"
        loc = lines[2 * i + 1] if 2 * i + 1 < len(lines) else "?"
        fn = fn.split("(")[0]
        out[pc] = (fn, loc.split(" ")[0])
    return out


# ---------------------------------------------------------------------------------------------
# case sets shared by C11 and C12
# ---------------------------------------------------------------------------------------------
STENCIL_OPS = ["resid_give", "resid_take", "smooth_give", "smooth_take", "esmooth_give", "esmooth_take", "ds_give", "ds_take"]


def shapes(tier):
    """(nr, ntheta, circles, dirbc): circles 2..9 cover all residues mod 2,3,4; ntheta covers residues mod 3 and
    non-powers of two; the radial section is kept short so that T exceeds the number of lines in some loops"""
    out = []
    nts = [4, 8, 12, 16, 20, 24]
    k = 0
    for circles in range(2, 10):
        for nt in nts:
            radial = 3 + (k % 3)
            nr = circles + radial
            out.append((nr, nt, circles, k % 2))
            k += 1
    if tier == "thorough":
        for circles in (2, 3, 4, 5, 6, 7, 8, 9, 12, 13):
            for nt in (4, 8, 12, 28, 32):
                out.append((circles + 4, nt, circles, (k + 1) % 2))
                k += 1
    return out


def admissible(op, nr, nt, circles):
    if op.startswith("smooth") or op.startswith("esmooth"):
        if nt % 4 != 0 or circles < 2 or nr - circles < 3:
            return False
    if op.startswith("esmooth"):
        if nr % 2 == 0 or circles < 3:
            return False
    return True


def stencil_cases(tier, Ts, bound=1):
    cases = []
    for (nr, nt, circles, dirbc) in shapes(tier):
        for op in STENCIL_OPS:
            nr_ = nr
            if op.startswith("esmooth") and nr_ % 2 == 0:
                nr_ += 1
            if not admissible(op, nr_, nt, circles):
                continue
            k = len(cases)
            # every geometry of the operator lattice, the tabulated Culham geometry and the orientation-reversing one included (the
            # input-function objects are part of what the threads share)
            geom, kappa, delta = ol.GEOMS[k % len(ol.GEOMS)]
            alpha, beta = ol.PROFILES[(k * 3 + 1) % 7]
            if geom == 3:
                alpha, beta = 3, 1   # the only profile shipped for Culham
            Rmax = 1.3
            radii = ol.make_radii(nr_, ol.R0S[k % 3], Rmax, ol.R_PATTERNS[k % 5])
            angles = ol.make_angles(nt, ol.T_PATTERNS[(k // 2) % 3])
            split = ol.split_for_circles(radii, circles)
            for T in Ts:
                cid = "m%05d_%s_T%d" % (k, op, T)
                line = ol.case_line(cid, radii, angles, split, geom, kappa, delta, alpha, beta, Rmax, dirbc, "x") + \
                    " op=%s T=%d bound=%d perms=%s audit=%d" % (op, T, bound, "all" if T <= 3 else "few", 1 if (nr_ * nt <= 600 and T <= 4) else 0)
                cases.append(dict(id=cid, line=line, op=op, T=T, nr=nr_, nt=nt, circles=circles, dirbc=dirbc, group="m%05d_%s" % (k, op)))
    return cases


def other_cases(tier, Ts, bound=1, big_stencil=True):
    cases = []
    # level caches (both constructors) and transfers (reference versions are parallel at any size)
    for i, (nr, nt) in enumerate([(9, 8), (11, 12), (13, 16), (9, 20), (9, 12), (11, 8)]):
        radii = ol.make_radii(nr, 1e-2, 1.3, ol.R_PATTERNS[i % 5])
        angles = ol.make_angles(nt, ol.T_PATTERNS[i % 3])
        gm = ol.GEOMS[(i + 1) % len(ol.GEOMS)]   # i = 4: Culham, i = 5: the orientation-reversing Shafranov geometry
        al = 3 if gm[0] == 3 else 2
        for op in ("levelcache", "transfers"):
            for T in Ts:
                cid = "o%02d_%s_T%d" % (i, op, T)
                line = ol.case_line(cid, radii, angles, None, gm[0], gm[1], gm[2], al, 1, 1.3, i % 2, "x") + \
                    " op=%s T=%d bound=%d perms=%s audit=1" % (op, T, bound, "all" if T <= 3 else "few")
                cases.append(dict(id=cid, line=line, op=op, T=T, group="o%02d_%s" % (i, op)))
    # transfers above the 10 000-node threshold (their 'if' clause enables the team)
    # non-uniform in both directions: a transfer that carries a width from one loop iteration to the next is only wrong where
    # neighbouring widths differ and only on threads whose chunk does not start at the first line
    radii = ol.make_radii(65, 1e-2, 1.3, "irregular")
    angles = ol.make_angles(160, "irregular")
    for T in ([2, 4] if tier != "thorough" else Ts):
        cid = "big_transfers_T%d" % T
        line = ol.case_line(cid, radii, angles, None, 1, 0.3, 0.2, 2, 1, 1.3, 0, "x") + " op=transfers T=%d bound=%d perms=rev audit=0" % (T, 1 if T == 2 else 0)
        cases.append(dict(id=cid, line=line, op="transfers_big", T=T, group="big_transfers"))
    # every stencil operator once on a grid above the 10 000-node threshold: only there do the assembly loops behind an
    # 'if (numberOfNodes() > 10 000)' / 'if (nnz > 10 000)' clause start a team at all
    radii = ol.make_radii(65, 1e-2, 1.3, "graded0")
    for op in (STENCIL_OPS if big_stencil else []):
        for T in ([2] if tier != "thorough" else Ts):
            cid = "big_%s_T%d" % (op, T)
            line = ol.case_line(cid, radii, angles, None, 1, 0.3, 0.2, 2, 1, 1.3, 0, "x") + \
                " op=%s T=%d bound=%d perms=rev audit=0" % (op, T, 1 if (tier == "thorough" and T <= 3) else 0)
            cases.append(dict(id=cid, line=line, op=op, T=T, nr=65, nt=160, circles="auto", dirbc=0, group="big_%s" % op))
    # vector kernels around the parallelisation threshold
    for n in (9999, 10000, 10001, 12345):
        for T in Ts:
            cid = "vec_n%d_T%d" % (n, T)
            cases.append(dict(id=cid, line="id=%s op=vector n=%d T=%d bound=%d perms=all audit=0" % (cid, n, T, bound), op="vector", T=T, n=n, group="vec_n%d" % n))
    # whole setup() + solve()
    k = 0
    for extr in (0, 1, 3):
        for strat in (0, 1):
            for fmg in (0, 1):
                for tf in (1.0, 0.5):
                    for T in (Ts if tier == "thorough" else [t for t in Ts if t in (2, 3, 4)]):
                        cid = "sol_e%d_s%d_f%d_tf%s_T%d" % (extr, strat, fmg, str(tf).replace(".", ""), T)
                        b = bound if (k % 6 == 0 and T <= 3) else 0
                        line = ("id=%s op=solver T=%d bound=%d perms=rev audit=0 nr_exp=4 ntheta_exp=5 extr=%d strat=%d maxit=3 geom=%d prob=2 "
                                "alpha=%d beta=1 kappa=0.3 delta=0.2 fmg=%d fmg_it=1 tfactor=%s dirbc=%d" %
                                (cid, T, b, extr, strat, 1 + (k % 2), 2 + (k % 2), fmg, tf, k % 2))
                        cases.append(dict(id=cid, line=line, op="solver", T=T, group=cid.rsplit("_T", 1)[0]))
                    k += 1
    # every shipped (geometry, problem, coefficient) class once through setup() + one cycle with two threads: the input-function
    # OBJECTS (source term, exact solution, boundary data, coefficients, geometry) are shared by the threads of build_rhs_f,
    # discretize_rhs_f, the level caches and the exact-error evaluation
    import c01 as _c01
    triples = [(g, p_, a, b_) for g in (0, 1, 2) for p_ in (0, 1, 2) for (a, b_) in _c01.PROFILES] + [(3, 2, 3, 1), (3, 3, 3, 1),
                                                                                                     (0, 3, 3, 1), (1, 3, 3, 1), (2, 3, 3, 1)]
    if tier != "thorough":
        triples = triples[::3] + triples[-5:]
    for (g, p_, a, b_) in triples:
        kd = {0: ("0.0", "0.0"), 1: ("0.3", "0.2"), 2: ("0.3", "1.4"), 3: ("0.0", "0.0")}[g]
        cid = "inp_g%dp%da%db%d_T2" % (g, p_, a, b_)
        line = ("id=%s op=solver T=2 bound=0 perms=rev audit=0 nr_exp=3 ntheta_exp=4 extr=0 strat=%d maxit=1 geom=%d prob=%d alpha=%d beta=%d "
                "kappa=%s delta=%s fmg=0 fmg_it=1 tfactor=1.0 dirbc=%d cc=%d cg=%d" %
                (cid, 1, g, p_, a, b_, kd[0], kd[1], (g + p_) % 2, (a + g) % 2, (p_ + b_) % 2))
        cases.append(dict(id=cid, line=line, op="solver", T=2, group=cid.rsplit("_T", 1)[0]))
    # uncached give paths (coefficients / geometry recomputed inside the parallel regions, uncached rhs discretisation)
    for ci, (cc, cg) in enumerate([(0, 0), (0, 1), (1, 0)]):
        for T in [t for t in Ts if t in (2, 3, 4)]:
            cid = "sol_uncached%d%d_T%d" % (cc, cg, T)
            line = ("id=%s op=solver T=%d bound=%d perms=rev audit=0 nr_exp=4 ntheta_exp=5 extr=%d strat=1 maxit=2 geom=%d prob=2 alpha=3 beta=1 "
                    "kappa=0.3 delta=%s fmg=%d fmg_it=1 tfactor=1.0 dirbc=%d cc=%d cg=%d" %
                    (cid, T, bound if T == 2 else 0, 1 if ci else 0, 1 + (ci % 2), "0.2" if ci % 2 == 0 else "1.4", ci % 2, ci % 2, cc, cg))
            cases.append(dict(id=cid, line=line, op="solver", T=T, group="sol_uncached%d%d" % (cc, cg)))
    return cases


def with_T1(cases):
    """adds the single-thread run of every group (reference for cross-thread-count comparison)"""
    out = list(cases)
    seen = set()
    for c in cases:
        g = c["group"]
        if g in seen or c["T"] == 1:
            continue
        seen.add(g)
        n = dict(c)
        n["T"] = 1
        n["id"] = g + "_T1ref"
        line = c["line"].replace("id=" + c["id"], "id=" + n["id"])
        import re
        line = re.sub(r" T=\d+", " T=1", line)
        line = re.sub(r" bound=\d+", " bound=0", line)
        n["line"] = line
        out.append(n)
    return out
