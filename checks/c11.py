"""C11 no data race in any parallel region: schedule exploration under the mcomp runtime with an exact per-epoch
happens-before oracle (every access of every member is compared with every other member's in the same barrier epoch)."""
import json
import re

import common
import mc_lib

PID = "C11"
LEVEL = "model_checking"


def _build():
    return mc_lib.build()


def tier_Ts(tier):
    return [2, 3, 4, 5, 7, 8, 16, 32] if tier == "thorough" else [2, 3, 4, 7]


def all_cases(tier):
    Ts = tier_Ts(tier)
    bound = 1
    cs = mc_lib.stencil_cases(tier, Ts, bound) + mc_lib.other_cases(tier, Ts, bound)
    if tier == "thorough":
        # deviation bound 2 for small teams on a slice of the stencil operators
        extra = []
        for c in mc_lib.stencil_cases("quick", [2, 3], 2)[::5]:
            c = dict(c)
            c["id"] += "_b2"
            c["line"] = c["line"].replace("id=" + c["id"][:-3], "id=" + c["id"])
            extra.append(c)
        cs += extra
    return cs


SELFTESTS = ["st_disjoint_ok", "st_neighbour_write_bad", "st_nowait_bad", "st_barrier_ok", "st_reduction_ok", "st_shared_accumulator_bad",
             "st_critical_ok", "st_critical_check_outside_bad", "st_named_critical_ok", "st_two_names_bad", "st_atomic_ok", "st_single_ok",
             "st_single_nowait_bad", "st_private_scratch_ok", "st_shared_scratch_bad", "st_dynamic_ok", "st_guided_ok", "st_dynamic_ull_ok",
             "st_dynamic_for_ok", "st_dynamic_serial_ok", "st_dynamic_neighbour_bad"]


def selftest_cases():
    return [dict(id="%s_T%d" % (op, T), op=op, T=T, line="id=%s_T%d op=%s T=%d bound=1 perms=all audit=0" % (op, T, op, T))
            for op in SELFTESTS for T in (2, 3)]


def run_selftests(engine, rep):
    """the race oracle on kernels with a known verdict; returns {name: verdict} for the evidence"""
    cs = selftest_cases()
    res, _ = mc_lib.run(engine, [(c["id"], c["line"]) for c in cs])
    verdicts = {}
    for c in cs:
        r = res.get(c["id"], {"status": "crash", "kind": "missing"})
        want_race = c["op"].endswith("_bad")
        if r.get("status") != "ok":
            got = "died (%s)" % (r.get("kind") or r.get("what"))
        else:
            got = "race" if int(r["conflicts"]) > 0 else "race-free"
        verdicts[c["id"]] = got
        if got != ("race" if want_race else "race-free"):
            rep.violation("engine-selftest:%s" % c["op"], "the schedule explorer's own self-test %s (T=%d) must be judged %s but was judged %s: "
                          "the engine or its build is broken, nothing it reports can be trusted" %
                          (c["op"], c["T"], "a race" if want_race else "race free", got), {"case": c["line"], "sched": ""})
    return verdicts


def judge(c, r, engine):
    out = []
    if r.get("status") == "crash":
        kind = r.get("kind")
        return [("%s:%s" % (kind, c["op"]), "the run died (%s): %s" % (kind, (r.get("stderr") or "").strip().splitlines()[-1:]))]
    if r.get("status") != "ok":
        return [("exception:%s" % c["op"], "threw: %s" % r.get("what"))]
    if int(r["conflicts"]) > 0:
        txt = r.get("conflict", "")
        pcs = re.findall(r"@(0x[0-9a-f]+)", txt)
        sym = mc_lib.symbolize(engine, pcs)
        m = re.search(r"\[epoch(\d+),m(\d+)([WR])@(0x[0-9a-f]+|\(nil\)|0),m(\d+)([WR])@(0x[0-9a-f]+|\(nil\)|0),blk(-?\d+)\+(-?\d+)/(-?\d+)\]", txt)
        if m:
            fa, la = sym.get(m.group(4), ("?", "?"))
            fb, lb = sym.get(m.group(7), ("?", "?"))
            key = "race:%s:%s/%s" % (c["op"], fa, fb)
            what = ("data race in epoch %s: member %s %s in %s (%s) and member %s %s in %s (%s) the same bytes of heap block #%s "
                    "(offset %s of %s bytes) with no barrier between them; %s conflicting (granule, member pair)s in this run; "
                    "schedule %s" % (m.group(1), m.group(2), "writes" if m.group(3) == "W" else "reads", fa, la, m.group(5),
                                     "writes" if m.group(6) == "W" else "reads", fb, lb, m.group(8), m.group(9), m.group(10),
                                     r["conflicts"], r.get("badsched")))
        else:
            key, what = "race:%s" % c["op"], "data race: %s" % txt[:300]
        out.append((key, what))
    if int(r.get("auditunlogged", 0)) > 0:
        out.append(("instrumentation-gap:%s" % c["op"], "write-completeness audit: %s bytes of heap changed without a logged write "
                    "(uninstrumented code wrote shared memory; the race oracle would be blind to it)" % r["auditunlogged"]))
    if r.get("diverged") == "1":
        out.append(("replay-divergence:%s" % c["op"], "a schedule prefix did not fit the run (control flow depends on the schedule)"))
    return out


def main(tier):
    rep = common.Reporter(PID, tier, LEVEL)
    engine, free = _build()
    selftests = run_selftests(engine, rep)
    cs = all_cases(tier)
    res, vecs = mc_lib.run(engine, [(c["id"], c["line"]) for c in cs])
    tot = dict(schedules=0, epochs=0, blocks=0, accesses=0, granules=0, pairs=0, writerepochs=0, memops=0, auditblocks=0, regions=0, criticals=0, dynchunks=0)
    nontrivial = 0
    sched_dep_access = []
    for c in cs:
        r = res.get(c["id"], {"status": "crash", "kind": "missing"})
        if r.get("status") == "ok" and int(r.get("sigmismatch", 0)) != 0:
            sched_dep_access.append(c["id"])
        for key, what in judge(c, r, engine):
            rep.violation(key, what + "  [case %s]" % {k: c[k] for k in c if k not in ("line",)}, {"case": c["line"], "sched": r.get("badsched", "")})
        if r.get("status") == "ok":
            for k in tot:
                tot[k] += int(r.get(k, 0))
            if int(r.get("writerepochs", 0)) > 0:
                nontrivial += 1
    cov = {
        "states": tot["epochs"], "transitions": tot["blocks"], "traces_validated_against_impl": tot["schedules"],
        "schedules": tot["schedules"], "parallel_regions": tot["regions"], "logged_accesses": tot["accesses"],
        "granules_checked": tot["granules"], "member_pair_comparisons": tot["pairs"], "logged_memmove_memcpy_memset": tot["memops"],
        "epochs_with_two_or_more_writers": tot["writerepochs"], "audited_blocks": tot["auditblocks"],
        "evaluations": len(cs), "distinct_nontrivial": nontrivial,
        "critical_sections_passed": tot.get("criticals", 0),
        "dynamic_schedule_chunks_handed_out": tot.get("dynchunks", 0),
        "engine_selftests": selftests,
        "cases_with_schedule_dependent_access_sets": sched_dep_access[:20],
        "team_sizes": tier_Ts(tier),
        "rule": "cases = {residual, smoother, extrapolated smoother, direct-solver assembly} x {give, take} x 48 shapes (circles 2..9, "
                "ntheta in {4,..,24}, radial length 3..5, both boundary modes) x team sizes, level caches, transfers (small and "
                "65x160), vector kernels around n = 10000, whole setup()+solve(); per case: identity schedule + every single-epoch "
                "deviation (all permutations for T<=3, reversal/rotations above; reversal for the whole solver); states = barrier "
                "epochs executed, transitions = member blocks executed; non-trivial = cases with >= 2 members writing in one epoch",
        "samples": [cs[0]["line"][:300], cs[-1]["line"]],
        "exhaustive": True,
    }
    if tot.get("dynchunks", 0):
        rep.note_incomplete("dynamically scheduled loops: iterations are assigned chunk by chunk round-robin in each explored order; other "
                            "assignments of chunks to threads are not explored")
    if sched_dep_access:
        # access sets that depend on the arrival order (possible under a critical section): the identity schedule no longer stands
        # for all schedules of the case; race freedom is then shown for the explored schedules only
        rep.note_incomplete("%d case(s) have schedule-dependent access sets: race freedom shown for the explored schedules (identity + every "
                            "single-epoch deviation), not by the equivalence argument" % len(sched_dep_access))
    return rep.finish(cov, ["synchronisation understood by the engine: barriers (two accesses are concurrent iff they fall in the same barrier "
                            "epoch on different members), the unnamed critical section and lock-based atomics (two accesses under the same "
                            "lock are ordered); the code base as given uses barriers only", "g++ lowering of OpenMP (GOMP_parallel/GOMP_barrier, static "
                            "schedules inlined); instrumentation by the -fsanitize=thread compiler pass at -O1; memmove/memcpy/memset "
                            "logged by the runtime; write-completeness audit on grids <= 600 nodes"])


def replay(path):
    rp = json.load(open(path))["replay"]
    engine, free = _build()
    line = rp["case"]
    if rp.get("sched") and rp["sched"] not in ("-", "identity"):
        line += " sched=" + rp["sched"]
    line = re.sub(r"id=\S+", "id=r0", line)
    outs = []
    for _ in range(2):
        res, _v = mc_lib.run(engine, [("r0", line)], chunk=1)
        r = res.get("r0", {})
        outs.append((r.get("status"), r.get("conflicts"), r.get("kind")))
    if outs[0] != outs[1]:
        print("replay is not deterministic; refusing to report")
        return 2
    print(outs[0])
    if outs[0][0] != "ok" or int(outs[0][1] or 0) > 0:
        print("VIOLATION property=%s replay=%s" % (PID, path))
        return 1
    print("replay: property held")
    return 0
