"""C07 extrapolated smoothing relaxes fine-only nodes and never moves coarse nodes."""
import json
import numpy as np

import common
import opalg_lib as ol
import c03
import c04
import c06

PID = "C07"
LEVEL = "model_checking"


def _build():
    return c03._build()


def oracle(s, r):
    viols, stats = [], {}
    A, N, dirichlet, info, cond, sc = c06.common_parts(r)
    I = np.eye(N)
    idx, nr, nt, C = info["idx"], info["nr"], info["nt"], info["circles"]
    coarse = np.zeros(N, dtype=bool)
    for i in range(0, nr, 2):
        for j in range(0, nt, 2):
            coarse[idx[i, j]] = True
    # fine-only rows of the colour updated last: white circles (fine-only nodes) and odd-theta radial lines
    last = []
    for i in range(nr):
        for j in range(nt):
            k = idx[i, j]
            if coarse[k]:
                continue
            if i < C:
                if (C - 1 - i) % 2 == 1:
                    last.append(k)
            elif j % 2 == 1:
                last.append(k)
    names = sorted(k[:-2] for k in r if k.startswith("Es_") and k.endswith("_S"))
    ref = "Es_take"
    S0, B0 = r[ref + "_S"], r[ref + "_B"]
    control = 0.0
    for nm in names:
        S, B = r[nm + "_S"], r[nm + "_B"]
        strat = nm[3:]
        if not (np.all(np.isfinite(S)) and np.all(np.isfinite(B))):
            viols.append(("nonfinite:" + strat, "%s produced non-finite values" % nm, {}))
            continue
        if nm + "_linx" in r:
            ld = ol.lin_deviation(S, r[nm + "_linx"], r[nm + "_liny"], B, r[nm + "_linf"])
            stats["worst_linearity"] = max(stats.get("worst_linearity", 0.0), ld)
            if not ld <= ol.LIN_TOL * max(1.0, cond * ol.EPS * 1e6):
                viols.append(("nonlinear:" + strat, "%s applied to generic (iterate, right-hand side) pairs of size O(1), 1e-20, 1e18 differs from "
                              "S x + B f by %.3g: the sweep is not affine (value-dependent shortcut?)" % (nm, ld), {"variant": nm}))
        # (a) coarse nodes: bit-for-bit unchanged
        mism = int(r[nm + "_coarse_bit_mismatch"][0, 0])
        stats["bit_checked"] = stats.get("bit_checked", 0) + int(r[nm + "_coarse_bit_checked"][0, 0])
        if mism:
            k = int(r[nm + "_coarse_bit_first"][0, 0])
            ri = c03._node(info, k)
            viols.append(("coarse-bitwise:%s:%s" % (strat, "circle" if ri[0] < C else "radial"),
                          "%s: %d coarse-node values were not returned bit-for-bit (first at node (%d,%d))" % (nm, mism, ri[0], ri[1]),
                          {"variant": nm}))
        if np.abs(S[coarse] - I[coarse]).max() != 0.0 or np.abs(B[coarse]).max() != 0.0:
            viols.append(("coarse-rows:" + strat, "%s: rows of coarse nodes are not (S row = e_i, B row = 0) exactly" % nm, {"variant": nm}))
        # (b) exact discrete solution is a fixed point
        fx = float(np.abs(S + B @ A - I).max() / (ol.EPS * cond))
        stats["worst_fix"] = max(stats.get("worst_fix", 0.0), fx)
        if fx > c06.THR_FIX:
            viols.append(("fixed-point:" + strat, "%s: S + B A != I (%.3g x eps*cond)" % (nm, fx), {"variant": nm}))
        # (c) residual vanishes on the last-updated colour's fine-only nodes
        Rm = np.abs(np.hstack([-A @ S, I - A @ B])) / sc[:, None]
        w = float(Rm[last].max())
        stats["worst_last_colour"] = max(stats.get("worst_last_colour", 0.0), w)
        if w > c06.THR_WHITE:
            k = last[int(np.argmax(Rm[last].max(axis=1)))]
            ri = c03._node(info, k)
            viols.append(("last-colour-residual:%s:%s:%s" % (strat, "circle" if ri[0] < C else "radial", c03._row_class(info, ri)),
                          "%s: residual on fine-only node (%d,%d) of the colour updated last is %.3g of the row scale"
                          % (nm, ri[0], ri[1], w), {"variant": nm, "row": ri}))
        control = max(control, float(Rm[coarse & ~dirichlet].max()) if (coarse & ~dirichlet).any() else 0.0)
        # (d) strategies / thread counts agree
        dS = float(np.abs(S - S0).max() / max(1.0, np.abs(S0).max()) / (ol.EPS * cond))
        dB = float(np.abs(B - B0).max() / np.abs(B0).max() / (ol.EPS * cond))
        stats["worst_pair"] = max(stats.get("worst_pair", 0.0), dS, dB)
        if max(dS, dB) > c06.THR_PAIR:
            viols.append(("variant-vs-take:" + strat, "%s differs from %s by %.3g x eps*cond" % (nm, ref, max(dS, dB)), {"variant": nm}))
        stats["columns"] = stats.get("columns", 0) + 2 * N + 8
    stats["worst_control_coarse_rows"] = control
    stats["variants"] = len(names)
    if len(names) < 10:
        viols.append(("missing-variants", "expected 10 extrapolated smoother variants (give x 4 cache combinations + take, 1 and 3 threads), "
                      "got %d" % len(names), {}))
    return viols, stats


def cases_for(tier):
    seed = {"tlist": "1,3", "seed": str(common.SEED)}
    if tier == "thorough":
        return ol.lattice([7, 9, 11, 13, 17], [4, 8, 12, 16, 20, 24, 32], "geo,A11,ES", tier, need_nt4=True, need_odd_nr=True,
                          min_circles=3, auto_min_nr=7, cycle_offsets=(0, 1, 2), extra=seed) + \
            ol.full_block([7, 9], [4, 8, 12], "geo,A11,ES", tier, need_nt4=True, need_odd_nr=True, min_circles=3, auto_min_nr=7,
                          extra=seed)
    return ol.lattice([7, 9, 11], [4, 8, 12, 16], "geo,A11,ES", tier, need_nt4=True, need_odd_nr=True, min_circles=3,
                      auto_min_nr=7, cycle_offsets=(0, 1), extra=seed)


def main(tier):
    return c06.drive(PID, "c07", cases_for(tier), tier,
                     "states = admissible finest-level cases (nr odd, >= 3 circles, >= 3 radial nodes, ntheta divisible by 4); "
                     "transitions = sweeps on unit iterates / unit right-hand sides (ExtrapolatedSmootherGive and -Take, 1 and "
                     "3 threads) plus 8 iterates per variant whose coarse-node entries run through {0,-0,1,pi,1/3,1e-150,1e150,"
                     "4.9e-324,-7.25} for the memcmp test; worst_control_coarse_rows is the residual on coarse nodes, which the "
                     "sweep must NOT make vanish",
                     ["VERIF_SEED only selects the filler values of the non-coarse entries in the bitwise test"],
                     {"thresholds": {"fixed_point": c06.THR_FIX, "last_colour_residual": c06.THR_WHITE, "variants": c06.THR_PAIR}})


def replay(path):
    return c04._replay(path, "c07", PID)
