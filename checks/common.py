"""Shared infrastructure for the GMGPolar model-checking checks.

- builds the repository libraries from the *current working tree* of $VERIF_REPO (default /repo)
  in one of several flavours, under a file lock, incrementally;
- builds harness binaries against those libraries;
- runs probe processes in parallel;
- filters violations through known_findings.json, writes replay artefacts and evidence files.
"""
import fcntl
import hashlib
import json
import os
import subprocess
import sys
import time
from concurrent.futures import ThreadPoolExecutor

# the oracles run one worker process per core: numpy's BLAS must not start a thread team in each of them
for _v in ("OPENBLAS_NUM_THREADS", "MKL_NUM_THREADS", "NUMEXPR_NUM_THREADS", "OMP_NUM_THREADS"):
    os.environ.setdefault(_v, "1")

VERIF = os.path.dirname(os.path.dirname(os.path.abspath(__file__)))
REPO = os.environ.get("VERIF_REPO", "/repo")
NCPU = int(os.environ.get("VERIF_JOBS", str(os.cpu_count() or 4)))
SEED = int(os.environ.get("VERIF_SEED", "0") or 0)


def _build_root():
    if os.path.realpath(REPO) == "/repo":
        return os.path.join(VERIF, "build")
    tag = hashlib.sha1(os.path.realpath(REPO).encode()).hexdigest()[:10]
    return os.path.join(VERIF, "build", "alt-" + tag)


BUILD = _build_root()

# ---------------------------------------------------------------------------------------------
# flavours
# ---------------------------------------------------------------------------------------------
FLAVOURS = {
    # as shipped
    "rel": {"cxx": "-O2 -DNDEBUG -mtune=generic", "link": "-fopenmp", "omp": True},
    # assertions on, ASan + UBSan
    "san": {
        "cxx": "-O1 -g -UNDEBUG -fsanitize=address,undefined -fno-sanitize-recover=undefined -fno-omit-frame-pointer",
        "link": "-fopenmp -fsanitize=address,undefined",
        "omp": True,
    },
    # assertions compiled out (what ships), ASan + UBSan
    "sannd": {
        "cxx": "-O1 -g -DNDEBUG -fsanitize=address,undefined -fno-sanitize-recover=undefined -fno-omit-frame-pointer",
        "link": "-fopenmp -fsanitize=address,undefined",
        "omp": True,
    },
    # objects instrumented by the TSan compiler pass, to be linked with the mcomp runtime
    # (NOT with libtsan / libgomp)
    "tsl": {"cxx": "-O1 -g -DNDEBUG -fsanitize=thread -fno-omit-frame-pointer", "link": "", "omp": True},
}

LIB_TARGETS = ["GMGPolarLib", "PolarGrid", "InputFunctions"]


class BuildError(Exception):
    pass


def log(*a):
    print(*a, file=sys.stderr, flush=True)


def run(cmd, **kw):
    return subprocess.run(cmd, stdout=subprocess.PIPE, stderr=subprocess.STDOUT, text=True, **kw)


class _Lock:
    def __init__(self, path):
        os.makedirs(os.path.dirname(path), exist_ok=True)
        self.f = open(path, "w")

    def __enter__(self):
        fcntl.flock(self.f, fcntl.LOCK_EX)
        return self

    def __exit__(self, *a):
        fcntl.flock(self.f, fcntl.LOCK_UN)
        self.f.close()


def build_lib(flavour, targets=None, with_exe=False):
    """Configure + build the repository's own CMake project in the given flavour.  Returns the build dir."""
    fl = FLAVOURS[flavour]
    bdir = os.path.join(BUILD, flavour)
    os.makedirs(bdir, exist_ok=True)
    tg = list(targets or LIB_TARGETS)
    if with_exe and "gmgpolar" not in tg:
        tg.append("gmgpolar")
    with _Lock(os.path.join(BUILD, flavour + ".lock")):
        t0 = time.time()
        cfg = [
            "cmake", "-G", "Ninja", "-S", REPO, "-B", bdir,
            "-DGMGPOLAR_BUILD_TESTS=OFF", "-DCMAKE_BUILD_TYPE=Verif",
            "-DCMAKE_CXX_FLAGS=" + fl["cxx"],
            "-DCMAKE_EXE_LINKER_FLAGS=" + (fl["link"] if flavour != "tsl" else "-fsanitize=thread"),
        ]
        r = run(cfg)
        if r.returncode != 0:
            raise BuildError("cmake configure failed (%s):\n%s" % (flavour, r.stdout[-4000:]))
        r = run(["ninja", "-C", bdir, "-j", str(NCPU)] + tg)
        if r.returncode != 0:
            raise BuildError("build failed (%s):\n%s" % (flavour, r.stdout[-6000:]))
        log("[build] %s libs up to date (%.1fs)" % (flavour, time.time() - t0))
    return bdir


def _newest_mtime(paths):
    m = 0.0
    for p in paths:
        if os.path.isdir(p):
            for root, _, files in os.walk(p):
                for f in files:
                    try:
                        m = max(m, os.path.getmtime(os.path.join(root, f)))
                    except OSError:
                        pass
        elif os.path.exists(p):
            m = max(m, os.path.getmtime(p))
    return m


def lib_paths(bdir):
    return [os.path.join(bdir, "libGMGPolarLib.a"), os.path.join(bdir, "libInputFunctions.a"),
            os.path.join(bdir, "libPolarGrid.a")]


def build_harness(name, flavour, sources, extra_cxx="", extra_link="", link_libs=True, opt=None, objs_only=False):
    """Compile harness sources (relative to /verif/harness) against the flavour's libraries.
    Harness translation units are the only ones compiled with -fno-access-control."""
    fl = FLAVOURS[flavour]
    bdir = os.path.join(BUILD, flavour)
    hdir = os.path.join(BUILD, "harness-" + flavour)
    os.makedirs(hdir, exist_ok=True)
    out = os.path.join(hdir, name)
    srcs = [s if os.path.isabs(s) else os.path.join(VERIF, "harness", s) for s in sources]
    libs = lib_paths(bdir) if link_libs else []
    with _Lock(os.path.join(hdir, name + ".lock")):
        deps = srcs + libs + [os.path.join(REPO, "include"), os.path.join(VERIF, "harness"),
                              os.path.join(VERIF, "engines")]
        stamp = out + ".cmd"
        cxx = fl["cxx"] if opt is None else opt
        cmd = ["g++", "-std=c++20", "-fno-access-control", "-I", os.path.join(REPO, "include"),
               "-I", os.path.join(VERIF, "harness"), "-I", os.path.join(VERIF, "engines")]
        cmd += cxx.split() + (["-fopenmp"] if fl["omp"] else []) + extra_cxx.split()
        cmd += srcs + ["-o", out] + libs + fl["link"].split() + extra_link.split()
        cmdstr = " ".join(cmd)
        if os.path.exists(out) and os.path.exists(stamp) and open(stamp).read() == cmdstr and \
                os.path.getmtime(out) >= _newest_mtime(deps):
            return out
        t0 = time.time()
        r = run(cmd)
        if r.returncode != 0:
            raise BuildError("harness %s failed to compile:\n%s" % (name, r.stdout[-6000:]))
        with open(stamp, "w") as f:
            f.write(cmdstr)
        log("[build] harness %s/%s (%.1fs)" % (flavour, name, time.time() - t0))
    return out


def pmap(fn, items, jobs=None):
    with ThreadPoolExecutor(max_workers=jobs or NCPU) as ex:
        return list(ex.map(fn, items))


def chunks(lst, n):
    n = max(1, n)
    k = (len(lst) + n - 1) // n
    return [lst[i:i + k] for i in range(0, len(lst), k)] if lst else []


SAN_ENV = {
    "ASAN_OPTIONS": "detect_leaks=0:abort_on_error=0:exitcode=97:allocator_may_return_null=1",
    "UBSAN_OPTIONS": "print_stacktrace=1:halt_on_error=1:exitcode=98",
    "OMP_NUM_THREADS": "1",
    # real OpenMP teams must not spin while the other probes of a check compete for the cores
    "OMP_WAIT_POLICY": "passive",
    "GOMP_SPINCOUNT": "0",
}


def run_probe(binary, args=(), stdin_text=None, env=None, timeout=600, cwd=None):
    e = dict(os.environ)
    e.update(SAN_ENV)
    if env:
        e.update(env)
    try:
        p = subprocess.run([binary] + list(args), input=stdin_text, stdout=subprocess.PIPE, stderr=subprocess.PIPE,
                           text=True, env=e, timeout=timeout, cwd=cwd)
        return p.returncode, p.stdout, p.stderr
    except subprocess.TimeoutExpired as ex:
        so = ex.stdout.decode() if isinstance(ex.stdout, bytes) else (ex.stdout or "")
        se = ex.stderr.decode() if isinstance(ex.stderr, bytes) else (ex.stderr or "")
        return -999, so, se + "\n[timeout after %ss]" % timeout


# ---------------------------------------------------------------------------------------------
# findings, replay artefacts, evidence
# ---------------------------------------------------------------------------------------------
def load_known():
    p = os.path.join(VERIF, "known_findings.json")
    if not os.path.exists(p):
        return []
    return json.load(open(p)).get("findings", [])


class Reporter:
    """Collects violations of one property run; applies the known-findings filter; writes evidence."""

    def __init__(self, pid, tier, level):
        self.pid = pid
        self.tier = tier
        self.level = level
        self.t0 = time.time()
        self.violations = []   # unknown ones
        self.known_hits = {}   # key -> count
        self.known = [k for k in load_known() if k.get("property") == pid and k.get("status") == "known"]
        self.cov = {}
        self.assumptions = []
        self.exhaustive = True
        self._printed = set()

    def note_incomplete(self, why):
        self.exhaustive = False
        self.cov.setdefault("incomplete", []).append(why)

    def violation(self, key, what, replay):
        """key: stable identification of the specific failing case class; replay: JSON-serialisable dict."""
        for k in self.known:
            if k["key"] == key:
                self.known_hits[key] = self.known_hits.get(key, 0) + 1
                if key not in self._printed:
                    self._printed.add(key)
                    print("KNOWN-FINDING: property=%s %s [%s]" % (self.pid, k.get("what", what), key), flush=True)
                return False
        rdir = os.path.join(VERIF, "replays", self.pid)
        os.makedirs(rdir, exist_ok=True)
        h = hashlib.sha1((key + json.dumps(replay, sort_keys=True, default=str)).encode()).hexdigest()[:12]
        path = os.path.join(rdir, "%s.json" % h)
        with open(path, "w") as f:
            json.dump({"property": self.pid, "key": key, "what": what, "replay": replay}, f, indent=1, default=str)
        self.violations.append((key, what, path))
        if len(self.violations) <= 25:
            print("VIOLATION property=%s replay=%s" % (self.pid, path), flush=True)
            log("  -> [%s] %s" % (key, what))
        return True

    def finish(self, coverage, assumptions=None):
        cov = dict(coverage)
        cov.update(self.cov)
        cov["exhaustive"] = bool(self.exhaustive and cov.get("exhaustive", True))
        cov["known_findings_hit"] = self.known_hits
        ev = {
            "property_id": self.pid,
            "tier": self.tier,
            "seed": SEED,
            "level": self.level,
            "coverage": cov,
            "assumptions": list(assumptions or []) + self.assumptions,
            "wall_s": round(time.time() - self.t0, 2),
            "violations": len(self.violations),
        }
        os.makedirs(os.path.join(VERIF, "evidence"), exist_ok=True)
        with open(os.path.join(VERIF, "evidence", self.pid + ".json"), "w") as f:
            json.dump(ev, f, indent=1, default=str)
        log("[%s] %s tier: %d violation(s), %d known finding key(s) hit, %.1fs" %
            (self.pid, self.tier, len(self.violations), len(self.known_hits), ev["wall_s"]))
        return 1 if self.violations else 0


def tier_from_args(argv):
    tier = os.environ.get("VERIF_TIER", "quick")
    if "--tier" in argv:
        tier = argv[argv.index("--tier") + 1]
    return tier
