"""Driver for the assembled-solver probe (harness/gmg.cpp): case lines -> RES dictionaries, in parallel, with crash
attribution (a case whose BEGIN line has no RES line killed the probe; the rest of its chunk is re-run)."""
import os
import shutil
import tempfile
from concurrent.futures import ThreadPoolExecutor

import common


def line_of(cid, cfg, **extra):
    d = dict(cfg)
    d.update(extra)
    parts = ["id=%s" % cid]
    for k, v in d.items():
        if isinstance(v, float):
            parts.append("%s=%r" % (k, v))
        else:
            parts.append("%s=%s" % (k, v))
    return " ".join(parts)


def parse_res(path):
    res, begun = {}, []
    if not os.path.exists(path):
        return res, begun
    for line in open(path, errors="replace"):
        line = line.strip()
        if line.startswith("BEGIN "):
            begun.append(line.split("id=", 1)[1])
        elif line.startswith("RES "):
            d = {}
            for tok in line[4:].split():
                if "=" in tok:
                    k, v = tok.split("=", 1)
                    d[k] = v
            res[d.get("id")] = d
    return res, begun


def num(d, k, default=None):
    if k not in d:
        return default
    v = d[k]
    try:
        if v.startswith(("0x", "-0x")) or "p" in v and "x" in v:
            return float.fromhex(v)
        return float(v)
    except ValueError:
        if v in ("nan", "-nan", "inf", "-inf"):
            return float(v)
        return default


def run_cases(binary, cases, env=None, timeout=1800, chunk=None, jobs=None):
    """cases: list of (id, line).  returns {id: dict}; crashed cases get {'status': 'crash', 'stderr': ...}"""
    tmpdir = tempfile.mkdtemp(prefix="gmg", dir=common.BUILD)
    out = {}
    try:
        n = len(cases)
        jobs = jobs or common.NCPU
        cs = chunk or max(1, min(40, (n + jobs * 4 - 1) // (jobs * 4)))
        chunks = [cases[i:i + cs] for i in range(0, n, cs)]

        def work(args):
            wi, ch = args
            local = {}
            todo = list(ch)
            rounds = 0
            while todo and rounds < len(ch) + 1:
                rounds += 1
                rp = os.path.join(tmpdir, "res%d_%d.txt" % (wi, rounds))
                text = "\n".join(l for _, l in todo) + "\n"
                # the probe runs in its own scratch directory: options that write files (paraview) write them there
                wd = os.path.join(tmpdir, "wd%d" % wi)
                os.makedirs(wd, exist_ok=True)
                rc, so, se = common.run_probe(binary, [rp], stdin_text=text, env=env, timeout=timeout, cwd=wd)
                res, begun = parse_res(rp)
                if os.path.exists(rp):
                    os.unlink(rp)
                for cid, _ in todo:
                    if cid in res:
                        local[cid] = res[cid]
                missing = [(cid, l) for cid, l in todo if cid not in res]
                if not missing:
                    break
                # the first missing case that had begun is the one that killed the probe
                culprit = None
                for cid, l in missing:
                    if cid in begun:
                        culprit = cid
                        break
                if culprit is None:
                    culprit = missing[0][0]
                local[culprit] = {"id": culprit, "status": "crash", "rc": str(rc), "stderr": (se or "")[-3000:],
                                  "kind": crash_kind(se, rc)}
                todo = [(cid, l) for cid, l in missing if cid != culprit]
            return local

        with ThreadPoolExecutor(max_workers=jobs) as ex:
            for loc in ex.map(work, list(enumerate(chunks))):
                out.update(loc)
        return out
    finally:
        shutil.rmtree(tmpdir, ignore_errors=True)


def crash_kind(se, rc):
    se = se or ""
    if "AddressSanitizer" in se:
        return "asan"
    if "runtime error" in se:
        return "ubsan"
    if "Assertion" in se:
        return "assert"
    if rc == -999:
        return "timeout"
    return "signal%s" % rc


def crash_line(se):
    for l in (se or "").splitlines():
        if "ERROR: AddressSanitizer" in l or "runtime error" in l or "Assertion" in l:
            return l.strip()[:300]
    ls = [l for l in (se or "").splitlines() if l.strip()]
    return (ls[-1] if ls else "")[:300]


# ---------------------------------------------------------------------------------------------
# process history: every ordered pair (a, b) of representative cases in ONE probe process; the result line of b must be
# identical to that of b alone in a fresh process (function-local statics, lazily initialised globals, thread-count state)
# ---------------------------------------------------------------------------------------------
def process_history(binary, reps, rep, what, ignore=("id",), env=None):
    """reps: list of (name, line) with 'id=<name>' inside the line.  Reports through rep; returns a coverage dict."""
    import re as _re

    def relabel(line, new):
        return _re.sub(r"\bid=\S+", "id=" + new, line, count=1)

    singles = [("s%03d" % i, relabel(l, "s%03d" % i)) for i, (_, l) in enumerate(reps)]
    fresh = run_cases(binary, singles, chunk=1, env=env)
    jobs, meta = [], []
    for i, (na, la) in enumerate(reps):
        for j, (nb, lb) in enumerate(reps):
            if i != j:
                jobs.append((i, j))
    # one probe process per ordered pair: two lines, chunk of 2
    lines = []
    for n, (i, j) in enumerate(jobs):
        lines.append(("p%04da" % n, relabel(reps[i][1], "p%04da" % n)))
        lines.append(("p%04db" % n, relabel(reps[j][1], "p%04db" % n)))
    res = run_cases(binary, lines, chunk=2, env=env)
    bad = 0
    for n, (i, j) in enumerate(jobs):
        f = fresh.get("s%03d" % j, {})
        if f.get("status") != "ok":
            continue   # b does not run alone: the main enumeration reports that
        r = res.get("p%04db" % n, {"status": "crash"})
        fa = {k: v for k, v in f.items() if k not in ignore and k != "stderr"}
        ra = {k: v for k, v in r.items() if k not in ignore and k != "stderr"}
        if fa != ra:
            bad += 1
            diff = sorted(k for k in set(fa) | set(ra) if fa.get(k) != ra.get(k))
            rep.violation("process-history:%s" % what, "case [%s] gives a different result (fields %s) when the same process handled case "
                          "[%s] before it than in a fresh process: %s vs %s" %
                          (reps[j][0], diff[:6], reps[i][0], {k: ra.get(k) for k in diff[:4]}, {k: fa.get(k) for k in diff[:4]}),
                          {"kind": "process-history", "first": reps[i][1], "second": reps[j][1]})
    return {"process_history_representatives": len(reps), "process_history_ordered_pairs": len(jobs), "process_history_pairs_differing": bad}


def replay_process_history(binary, rp, pid, path, ignore=("id",)):
    import re as _re

    def relabel(line, new):
        return _re.sub(r"\bid=\S+", "id=" + new, line, count=1)

    outs = []
    for _ in range(2):
        f = run_cases(binary, [("f", relabel(rp["second"], "f"))], chunk=1).get("f", {})
        r = run_cases(binary, [("a", relabel(rp["first"], "a")), ("b", relabel(rp["second"], "b"))], chunk=2).get("b", {})
        fa = {k: v for k, v in f.items() if k not in ignore and k != "stderr"}
        ra = {k: v for k, v in r.items() if k not in ignore and k != "stderr"}
        outs.append(sorted(k for k in set(fa) | set(ra) if fa.get(k) != ra.get(k)))
    if outs[0] != outs[1]:
        print("replay is not deterministic; refusing to report")
        return 2
    if outs[0]:
        print("fields differing from the fresh process: %s" % outs[0])
        print("VIOLATION property=%s replay=%s" % (pid, path))
        return 1
    print("replay: property held")
    return 0
