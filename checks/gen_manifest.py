#!/usr/bin/env python3
"""Regenerates /verif/MANIFEST.json from the table below (kept here so the manifest is always valid)."""
import json
import os

VERIF = os.path.dirname(os.path.dirname(os.path.abspath(__file__)))

# id -> (engine, level, technique, text, note, design_ref)
CHECKS = {
    "C14": ("enumerators", "model_checking",
            "exhaustive enumeration of an entry alphabet x solve histories on the real class, dense reference oracle",
            "Every SPD system over the stated alphabet (all of them for n<=4, one-irregular-position patterns and "
            "scalings above) is solved by the real SymmetricTridiagonalSolver for all unit right-hand sides and all "
            "solve histories up to depth 3/4; each solve is judged against a dense long-double reference and against "
            "a fresh object bit for bit; every system is also assigned (copy, move) into an object that has solved the previous system of its "
            "size, and a used object is copied into a fresh one, each of which must then solve like a fresh object.",
            "Trusted: the dense reference, g++/libstdc++, the documented matrix layout. Bounded by the alphabet and n.",
            "DESIGN.md 5/C14"),
    "C15": ("histbfs", "model_checking",
            "explicit-state BFS over operation histories on live objects, canonical-state deduplication, value-semantics model",
            "Breadth-first search over all histories of construct / set entries / solve / copy- and move-construct / "
            "copy- and move-assign (incl. self copy-assign, empty and moved-from sources) on three slots for Vector, "
            "SparseMatrixCOO, SparseMatrixCSR, SparseLUSolver, SymmetricTridiagonalSolver and DiagonalSolver. States are "
            "canonical strings of all visible and hidden fields plus the model; the search saturates (depth 7 quick, 9 "
            "thorough); sparse shapes include non-square ones with equal entry and column counts; a separate exhaustive block runs "
            "every special member of Vector above the 10 000-element team threshold with team sizes 1,2,3,5,8. After every transition every live object is observed (element reads, solves against a dense "
            "reference) and compared with the value-semantics model, under ASan+UBSan.",
            "Trusted: the value-semantics model (moved-from == empty), the dense reference solve. Self-move-assignment "
            "is outside the alphabet.",
            "DESIGN.md 5/C15"),
    "C16": ("enumerators", "model_checking",
            "exhaustive enumeration of sparsity patterns x storage orders x constructors x scalings on the real solver, dense reference",
            "All 2^(n(n-1)) off-diagonal sparsity patterns for n<=4, with every order of the entries within each row "
            "(n<=3) or four canonical reorderings, explicit stored zeros, three CSR constructors, row scalings over 12 "
            "orders of magnitude, non-dominant L*U products and structured families up to n=8 (12) are factorised and "
            "solved by the real SparseLUSolver for all unit right-hand sides and three dense ones in sequence; judged by "
            "a row-wise backward error in long double and bitwise against a fresh solver.",
            "Trusted: dense long-double residual. Pivots below 1e-12 absolute (the solver's own cut-off) are outside the alphabet.",
            "DESIGN.md 5/C16"),
    "C17": ("enumerators", "model_checking",
            "exhaustive enumeration of grid shapes x split classes x unwrapped indices against a reference numbering",
            "Every grid with nr in 2..7 (11) and ntheta in {2,..,16 (32)} (power of two or not), uniform and irregular "
            "coordinates, every class of explicit splitting radius plus the automatic split, is queried at every node and "
            "for every unwrapped theta index in [-3ntheta-1, 3ntheta+1]; all index/multiIndex API pairs, neighbour and "
            "spacing queries and the split partition are compared with a reference numbering; each grid is coarsened to "
            "the smallest grid and every coarse grid is re-checked; an automatic-split sweep (many angular nodes per radial node x 39 "
            "inner radii) checks the minimum sizes of the automatic split. Assertions on, ASan+UBSan.",
            "Trusted: the reference numbering written from the documented layout.",
            "DESIGN.md 5/C17"),
    "C01": ("cfglat", "exploration",
            "exhaustive enumeration of the option lattice of the assembled solver with an independent residual oracle",
            "The full cross product of the core options (3 geometries x 3 problems x 7 coefficient classes x boundary x "
            "strategy x extrapolation x cycle = 2268 configurations on 17x32, plus mode 2) and every configuration within "
            "1-2 (quick) / 3 (thorough) deviations of 6 representative cores in the secondary options (incl. verbosity, one-sided smoothing, "
            "geometry parameters, hole size, a non-uniform grid loaded from files) and solves on 129x256 with 1 and 3 threads are run "
            "through the public API. Each run must converge with a reduction factor < 1, every early stop is re-judged with a "
            "residual recomputed from nothing but the returned vector and the problem data, results must not depend on the verbosity, "
            "and every ordered pair of 17 representative solves in one process must equal the same solve in a fresh process. The input "
            "functions handed to the library are argument-monitored and the boundary data poisoned outside their boundary.",
            "Exploration, not model checking: tolerances, mesh widths and geometry parameters are a continuum covered on a "
            "declared alphabet. Trusted: the independent residual in harness/gmgcfg.h (other strategy's operator, own rhs).",
            "DESIGN.md 5/C01"),
    "C03": ("opalg", "model_checking",
            "exhaustive basis enumeration (all unit vectors) x grid-shape lattice, dense reference stencil oracle",
            "For every case of the grid-shape lattice the residual operator is extracted column by column on ALL unit "
            "vectors for give x 4 cache combinations and take, with 1 and 3 threads, on every level of the coarsening "
            "chain built as setup() builds it; all matrices must equal each other and an independently written dense "
            "assembler of the documented 9-/7-point stencil, Dirichlet rows must be identity rows, the affine part exact, "
            "and coarse caches must equal a fresh evaluation. The operator is linear, so its action on a basis is the operator (linearity is "
            "probed with generic vectors of size O(1), 1e-20, 1e18); all ordered pairs of representative cases run in one probe process "
            "and are compared bit for bit with a fresh process (C03-C08); the thorough tier adds a full-product block.",
            "Trusted: the reference stencil (checks/opalg_lib.py), numpy. Bounded by the lattice (nr<=11(17), ntheta<=16(32)).",
            "DESIGN.md 5/C03"),
    "C04": ("opalg", "model_checking",
            "exhaustive basis enumeration: every unit right-hand side solved, judged by the other strategy's residual",
            "Both direct solvers solve EVERY unit right-hand side (and 6 wide-dynamic-range ones) on every lattice case down "
            "to the smallest hierarchy grid 5x4, assembled with 1 and 3 threads; each solution is fed to the other "
            "strategy's residual operator (row-wise backward error), the two inverses are compared, and the assembled CSR "
            "matrix is compared entry by entry with the operator.",
            "Trusted: numpy matrix products; thresholds in units of eps*(|A||x|+|b|) with >=100x margin over the clean tree.",
            "DESIGN.md 5/C04"),
    "C05": ("opalg", "model_checking",
            "exhaustive entrywise symmetry / spectral check of the extracted operator and of every stored line block",
            "The interior block of the extracted operator (both strategies, 1 and 3 threads) is compared with its transpose "
            "for ALL index pairs and its spectrum is computed; every line matrix stored by SmootherGive (4 cache "
            "combinations) and SmootherTake is read before its first solve and compared with the operator's principal "
            "block and tested for positive definiteness. Holding entrywise, symmetry and definiteness hold for all vectors.",
            "Trusted: LAPACK eigenvalues via numpy.",
            "DESIGN.md 5/C05"),
    "C06": ("opalg", "model_checking",
            "exhaustive basis enumeration of the affine sweep map (S, B) x lattice, algebraic identities as oracle",
            "A sweep is affine, x' = S x + B f. S and B are extracted on all unit iterates / right-hand sides for give x 4 "
            "cache combinations and take, with 1 and 3 threads. Oracles: S + B A = I (every exact solution is a fixed point "
            "for every f), the residual map vanishes on every row of the colour updated last (and does NOT on the other "
            "colour), Dirichlet rows exact, all variants agree, and the energy norm of the error propagator is <= 1.",
            "Trusted: numpy/LAPACK; admissible grids only (ntheta % 4 == 0, >= 2 circles, >= 3 radial nodes).",
            "DESIGN.md 5/C06"),
    "C07": ("opalg", "model_checking",
            "exhaustive basis enumeration + bitwise alphabet test of the extrapolated sweep",
            "As C06 for ExtrapolatedSmootherGive/Take (1 and 3 threads) on every admissible finest-level case, plus 8 iterates "
            "per variant whose coarse-node entries run through a double alphabet (0, -0, denormal, 1e+-150, ...) and are "
            "compared by memcmp after the sweep; S coarse rows = e_i and B coarse rows = 0 exactly.",
            "Trusted: numpy; nr odd, >= 3 circles (the smoother asserts otherwise).",
            "DESIGN.md 5/C07"),
    "C08": ("opalg", "model_checking",
            "exhaustive basis enumeration of all transfer operators on every fine/coarse pair of the lattice",
            "P, P0, Pex, Pex0, R, R0, Rex, Rex0, injection and FMG interpolation are extracted on every unit vector for every "
            "pair (every split on the fine level, automatic and explicit coarse splits, 5x3 spacing patterns). Adjoint "
            "identities, optimised == reference, injection o prolongation = I, non-negative weights, row sums and linear "
            "reproduction (row by row, local angles) are checked; rows failing exactly as the recorded weight defect F2 "
            "predicts are reported as KNOWN-FINDING, any other failing row is a violation.",
            "Trusted: numpy. Pairs above 10 000 fine nodes are extracted with 3 threads: 41x256 (irregular angles) in both tiers, "
            "65x160 in the thorough tier.",
            "DESIGN.md 5/C08"),
    "C09": ("opalg+histbfs", "model_checking",
            "exhaustive basis enumeration of the FMG interpolation + enumeration of start-up configurations x object histories",
            "Part 1: the FMG interpolation matrix of every grid pair is judged row by row (coarse copy, constants, support, "
            "tensor-cubic exactness / cubic-linear next to the boundaries). Part 2: for L in 2..4(5) levels x FMG cycle x "
            "FMG iterations {0,1,2} x extrapolation x strategy the start vector (maxIterations = 0) must be bitwise "
            "identical over 5 object histories and equal the harness's nested iteration - built from the levels' PUBLIC operators, a "
            "reference cycle composed in the harness and right-hand sides the harness discretises itself on every level; accuracy "
            "judged with 2 cycles; all ordered pairs of 12 representative start-ups in one process equal the fresh process.",
            "Trusted: the harness-side nested iteration and reference cycle (public operators, documented order).",
            "DESIGN.md 5/C09"),
    "C13": ("histbfs", "model_checking",
            "explicit enumeration of all operation histories (option block, setup, solve x n) up to depth 3/4 on one object",
            "All histories of up to 3 (quick) / 4 (thorough) blocks over 9 / 13 option tuples (incl. the convergence_order refinement "
            "loop, a non-uniform loaded grid and tuples setup() rejects, after which the caller goes on with the same object), each "
            "block = setters (all of them, or only those of changed options), setup(), 1 or 2 solve() calls, run on ONE solver object; "
            "after every solve the observation (solution bitwise, iterations, reduction factor, the error getters) must equal a freshly "
            "constructed solver's, whose own reference comes from a process that has handled nothing else.",
            "Trusted: a fresh object in a fresh process is the specification. Input functions are fixed per object.",
            "DESIGN.md 5/C13"),
    "C02": ("cfglat", "exploration",
            "exhaustive enumeration of the shipped problem table on a refinement chain, observed-order oracle",
            "All 63 smooth shipped triples x interior boundary x {give, take (+ uncached give variants)} x {no, implicit} "
            "extrapolation, plus two-level x {V,W,F} variants, are solved on the chain divideBy2 = 0,1,2(,3, subset 4); the observed order "
            "between successive refinements must be >= 1.75 (1.5 on the first pair) without and >= 3.2 / 2.5 (weighted l2 / max) with "
            "extrapolation, on the finest grid the extrapolated error must be the smaller one, all variants of one triple must have the "
            "same error norms on every grid, and the error figures the solver reports are recomputed from the returned vector. The three "
            "Poisson x Czarny triples are a recorded finding (F1).",
            "Exploration: the mesh width is a continuum, the order is judged on a stated chain. Errors are computed by the harness.",
            "DESIGN.md 5/C02"),
    "C10": ("opalg+histbfs", "model_checking",
            "enumeration of cycle configurations; dense exact-solution fixed point, exhaustive unit-vector comparison with the algebraic correction, object histories",
            "The six private cycle functions are called directly for L = 2,3(,4) levels x pre,post in {0,1,2}^2 x strategy x "
            "boundary: (a) started from the dense exact solution of the (extrapolated) system a cycle must return it (with a "
            "control start that must move), (b) for L = 2 without smoothing the cycle is compared on EVERY unit iterate and unit "
            "right-hand side with u + P A_c^-1 R (f - A u) resp. the extrapolated formula formed from the public operators, "
            "(c) dirty work vectors and (d) repeated cycles on one object must not change the result bitwise, (e) for every depth, cycle "
            "type and smoothing count the cycle equals a reference cycle composed in the harness from the levels' public operators "
            "(bit-identical on the tree as given), (f) all ordered pairs of 12 representative cycle cases in one process equal the fresh process.",
            "Trusted: dense Gaussian elimination in the harness; the definition of the extrapolated system (DESIGN.md).",
            "DESIGN.md 5/C10"),
    "C11": ("mcomp", "model_checking",
            "stateless schedule exploration (deviation-bounded permutations of barrier-delimited blocks) of the real OpenMP code under a replaced runtime, exact per-epoch happens-before race oracle",
            "The library, compiled with -fopenmp -fsanitize=thread, is linked with mcomp instead of libgomp/libtsan: team members "
            "are coroutines, scheduling points are barriers, every access of every member is recorded per barrier epoch at byte "
            "granularity and any byte written by one member and touched by another in the same epoch is a race. Explored: the "
            "identity schedule plus every single-epoch deviation for 8 stencil operators x 48 shapes (all lattice geometries, Culham "
            "included) x team sizes, the same operators on a 65x160 grid (above the 10 000-node threshold), level caches, transfers, "
            "vector kernels, whole setup()+solve() runs and every shipped input-function class. A clean epoch makes all its "
            "interleavings equivalent. 21 engine self-test kernels with a known verdict run first.",
            "Synchronisation modelled: barriers, critical sections (named too), lock-based atomics, single, dynamic/guided loops (one "
            "chunk assignment per explored order); tasks are reported as unsupported. The code base as given uses barriers only. "
            "Trusted: the compiler's TSan instrumentation plus the runtime's memmove/memcpy/memset logging, checked by a "
            "write-completeness audit. g++ lowering only.",
            "DESIGN.md 2.1, 5/C11"),
    "C12": ("mcomp", "model_checking",
            "schedule exploration with bitwise output/access-set comparison + bitwise differential against free-running libgomp + cross-thread-count comparison",
            "For every case all explored schedules must give bit-identical outputs and access sets; the same instrumented "
            "objects linked with the real libgomp and run three times on real threads must give the same bits as the explorer; "
            "results for team sizes 1..16(32) are compared with the single-thread result within re-association tolerances; "
            "reduction kernels are judged for every arrival order explored and every element-wise kernel against its definition below and "
            "above the parallelisation threshold; the threads-per-level table is enumerated for 1..32 threads.",
            "Trusted: the single-thread run as reference; tolerances per operator class.",
            "DESIGN.md 5/C12"),
    "C18": ("enumerators", "fault_enumeration",
            "exhaustive enumeration of grid-generation parameters and single-token file faults, each in a forked child under ASan+UBSan in two builds",
            "Every combination of nr_exp, ntheta_exp, anisotropic factor, divideBy2, three domains and 14-18 refinement radii "
            "(inside, at and outside [R0, Rmax], incl. the command-line default 0) is constructed with assertions on and with "
            "NDEBUG; each is either rejected by an exception or yields a grid satisfying the validity, midpoint, nesting and "
            "level-count invariants; grid files are round-tripped, every single-token fault at 9 positions is injected, and 8 kinds of "
            "angle-array faults are injected at every position through the file and the array constructor.",
            "Trusted: the validity invariants in harness/c18_grid.cpp.",
            "DESIGN.md 5/C18"),
    "C19": ("enumerators", "exploration",
            "exhaustive enumeration of the selection table, each class on a generic point lattice against high-order numerical differentiation",
            "All 128 option tuples go through the real selectTestCase(); the 77 selectable quintuples are evaluated on a generic "
            "12x16 (24x32) lattice: Jacobians vs differentiated mapping (Culham included), rhs_f vs -div(alpha grad u)+beta u by "
            "nested 6th-order differences at three step sizes, boundary data vs exact solution, gyro relation, class names vs options, "
            "purity (three evaluation orders, bit-identical), and every class with a defined default constructor, default-constructed, "
            "against the object the table builds with the documented defaults.",
            "Exploration: points are a continuum; all functions are analytic and the lattice generic.",
            "DESIGN.md 5/C19"),
    "C20": ("cfglat", "fault_enumeration",
            "deviation-bounded enumeration of the option lattice through API and command line under sanitizers, fill-pattern differential, valgrind slice",
            "3 base configurations + every single deviation over 30 options (incl. verbosity, paraview, the solver's grid-file options, "
            "negative counts; + hand-picked and, thorough, all pairs) run through "
            "the public API under ASan+UBSan with assertions on and with NDEBUG and through the gmgpolar executable (plus invalid "
            "enum integers that must be rejected); completed runs are repeated in the release build with two stack/heap fill "
            "patterns (statistics must be bit-identical), a second solver configured through setParameters(argc, argv) must agree with "
            "the setter-configured twin (getters, iterations, factor, errors, solution), a grid written by one solver and loaded by "
            "another gives the same solve, and a slice runs under valgrind memcheck.",
            "Negative thread counts and grid exponents are not in the alphabet.",
            "DESIGN.md 5/C20"),
}

NOT_YET = {}


def main():
    props = [json.loads(l) for l in open(os.path.join(VERIF, "properties.jsonl"))]
    checks = []
    na = []
    for p in props:
        pid = p["id"]
        if pid in CHECKS:
            eng, level, tech, text, note, ref = CHECKS[pid]
            checks.append({
                "property_id": pid,
                "quick_cmd": "python3-vt checks/run.py %s --tier quick" % pid,
                "thorough_cmd": "python3-vt checks/run.py %s --tier thorough" % pid,
                "evidence_file": "evidence/%s.json" % pid,
                "replay_cmd_template": "python3-vt checks/run.py %s --replay {path}" % pid,
                "engine": eng,
                "level_claimed": {"category": level, "text": text, "design_ref": ref},
                "level_note": note,
                "technique": tech,
            })
        else:
            na.append({"property_id": pid,
                       "reason": NOT_YET.get(pid, "check not built yet in this round (work in progress; see DESIGN.md "
                                                  "section 5 for the planned model-checking design) - not claimed")})
    man = {
        "version": 1,
        "setup_cmd": "python3-vt checks/setup.py",
        "hooks": {
            "guard": "SCICOMPMOD_GMGPOLAR_VERIF",
            "enable": "no source hooks are needed: harness translation units are compiled with -fno-access-control "
                      "and the OpenMP/TSan runtime entry points are replaced at link time (engines/mcomp)",
            "baseline_off_cmd": "cmake -G Ninja -S /repo -B /repo/_build && cmake --build /repo/_build && "
                                "ctest --test-dir /repo/_build -j8 --timeout 900",
            "source_commits": [],
            "add_only": True,
        },
        "engines": [
            {"name": "enumerators", "path": "harness/", "serves_properties": ["C14", "C16", "C17", "C18", "C19"],
             "kind_free_text": "nested-loop exhaustive enumerators over finite alphabets on the real classes"},
            {"name": "opalg", "path": "harness/opalg.cpp + checks/opalg_lib.py", "serves_properties": ["C03", "C04", "C05", "C06", "C07", "C08", "C09", "C10"],
             "kind_free_text": "operator algebra by exhaustive basis enumeration: real operators applied to every unit "
                               "vector on every case of a grid-shape lattice, numpy oracles"},
            {"name": "mcomp", "path": "engines/mcomp/ + harness/mc_harness.cpp + checks/mc_lib.py", "serves_properties": ["C11", "C12"],
             "kind_free_text": "OpenMP schedule explorer: own GOMP_*/omp_*/__tsan_* runtime (ucontext team members, barrier "
                               "epochs, deviation-bounded permutation schedules, exact byte-level race oracle, deterministic "
                               "arena allocator, write-completeness audit) + free-running libgomp differential"},
            {"name": "cfglat", "path": "harness/gmg.cpp + checks/gmg_lib.py", "serves_properties": ["C01", "C02", "C09", "C13", "C20"],
             "kind_free_text": "option-lattice enumeration of the assembled solver through its public API"},
            {"name": "histbfs", "path": "harness/c15_copymove.cpp, harness/gmg.cpp (hist, fmgstart)", "serves_properties": ["C09", "C13", "C15"],
             "kind_free_text": "explicit-state breadth-first search over operation histories on live objects, "
                               "state = replayed history, dedup by canonical visible+hidden state"},
        ],
        "checks": checks,
        "not_applicable": na,
        "notes": "All checks rebuild the repository from /repo's working tree (VERIF_REPO overrides) into /verif/build.",
    }
    with open(os.path.join(VERIF, "MANIFEST.json"), "w") as f:
        json.dump(man, f, indent=1)
    print("wrote MANIFEST.json: %d checks, %d not claimed" % (len(checks), len(na)))


if __name__ == "__main__":
    main()
