#!/usr/bin/env python3
"""Regenerates /verif/MANIFEST.json from the table below (kept here so the manifest is always valid)."""
import json
import os

VERIF = os.path.dirname(os.path.dirname(os.path.abspath(__file__)))

# id -> (engine, level, technique, text, note, design_ref)
CHECKS = {
    "C14": ("enumerators", "model_checking",
            "exhaustive enumeration of an entry alphabet x solve histories on the real class, dense reference oracle",
            "Every SPD system over the stated alphabet (all of them for n<=4, one-irregular-position patterns and "
            "scalings above) is solved by the real SymmetricTridiagonalSolver for all unit right-hand sides and all "
            "solve histories up to depth 3/4; each solve is judged against a dense long-double reference and against "
            "a fresh object bit for bit.",
            "Trusted: the dense reference, g++/libstdc++, the documented matrix layout. Bounded by the alphabet and n.",
            "DESIGN.md 5/C14"),
    "C15": ("histbfs", "model_checking",
            "explicit-state BFS over operation histories on live objects, canonical-state deduplication, value-semantics model",
            "Breadth-first search over all histories of construct / set entries / solve / copy- and move-construct / "
            "copy- and move-assign (incl. self copy-assign, empty and moved-from sources) on three slots for Vector, "
            "SparseMatrixCOO, SparseMatrixCSR, SparseLUSolver, SymmetricTridiagonalSolver and DiagonalSolver. States are "
            "canonical strings of all visible and hidden fields plus the model; the search saturates (depth 6 quick, 9 "
            "thorough). After every transition every live object is observed (element reads, solves against a dense "
            "reference) and compared with the value-semantics model, under ASan+UBSan.",
            "Trusted: the value-semantics model (moved-from == empty), the dense reference solve. Self-move-assignment "
            "is outside the alphabet.",
            "DESIGN.md 5/C15"),
    "C16": ("enumerators", "model_checking",
            "exhaustive enumeration of sparsity patterns x storage orders x constructors x scalings on the real solver, dense reference",
            "All 2^(n(n-1)) off-diagonal sparsity patterns for n<=4, with every order of the entries within each row "
            "(n<=3) or four canonical reorderings, explicit stored zeros, three CSR constructors, row scalings over 12 "
            "orders of magnitude, non-dominant L*U products and structured families up to n=8 (12) are factorised and "
            "solved by the real SparseLUSolver for all unit right-hand sides and three dense ones in sequence; judged by "
            "a row-wise backward error in long double and bitwise against a fresh solver.",
            "Trusted: dense long-double residual. Pivots below 1e-12 absolute (the solver's own cut-off) are outside the alphabet.",
            "DESIGN.md 5/C16"),
    "C17": ("enumerators", "model_checking",
            "exhaustive enumeration of grid shapes x split classes x unwrapped indices against a reference numbering",
            "Every grid with nr in 2..7 (11) and ntheta in {2,..,16 (32)} (power of two or not), uniform and irregular "
            "coordinates, every class of explicit splitting radius plus the automatic split, is queried at every node and "
            "for every unwrapped theta index in [-3ntheta-1, 3ntheta+1]; all index/multiIndex API pairs, neighbour and "
            "spacing queries and the split partition are compared with a reference numbering; each grid is coarsened to "
            "the smallest grid and every coarse grid is re-checked. Assertions on, ASan+UBSan.",
            "Trusted: the reference numbering written from the documented layout.",
            "DESIGN.md 5/C17"),
}

NOT_YET = {}


def main():
    props = [json.loads(l) for l in open(os.path.join(VERIF, "properties.jsonl"))]
    checks = []
    na = []
    for p in props:
        pid = p["id"]
        if pid in CHECKS:
            eng, level, tech, text, note, ref = CHECKS[pid]
            checks.append({
                "property_id": pid,
                "quick_cmd": "python3-vt checks/run.py %s --tier quick" % pid,
                "thorough_cmd": "python3-vt checks/run.py %s --tier thorough" % pid,
                "evidence_file": "evidence/%s.json" % pid,
                "replay_cmd_template": "python3-vt checks/run.py %s --replay {path}" % pid,
                "engine": eng,
                "level_claimed": {"category": level, "text": text, "design_ref": ref},
                "level_note": note,
                "technique": tech,
            })
        else:
            na.append({"property_id": pid,
                       "reason": NOT_YET.get(pid, "check not built yet in this round (work in progress; see DESIGN.md "
                                                  "section 5 for the planned model-checking design) - not claimed")})
    man = {
        "version": 1,
        "setup_cmd": "python3-vt checks/setup.py",
        "hooks": {
            "guard": "SCICOMPMOD_GMGPOLAR_VERIF",
            "enable": "no source hooks are needed: harness translation units are compiled with -fno-access-control "
                      "and the OpenMP/TSan runtime entry points are replaced at link time (engines/mcomp)",
            "baseline_off_cmd": "cmake -G Ninja -S /repo -B /repo/_build && cmake --build /repo/_build && "
                                "ctest --test-dir /repo/_build -j8 --timeout 900",
            "source_commits": [],
            "add_only": True,
        },
        "engines": [
            {"name": "enumerators", "path": "harness/", "serves_properties": ["C14", "C16", "C17"],
             "kind_free_text": "nested-loop exhaustive enumerators over finite alphabets on the real classes"},
            {"name": "histbfs", "path": "harness/c15_copymove.cpp", "serves_properties": ["C15"],
             "kind_free_text": "explicit-state breadth-first search over operation histories on live objects, "
                               "state = replayed history, dedup by canonical visible+hidden state"},
        ],
        "checks": checks,
        "not_applicable": na,
        "notes": "All checks rebuild the repository from /repo's working tree (VERIF_REPO overrides) into /verif/build.",
    }
    with open(os.path.join(VERIF, "MANIFEST.json"), "w") as f:
        json.dump(man, f, indent=1)
    print("wrote MANIFEST.json: %d checks, %d not claimed" % (len(checks), len(na)))


if __name__ == "__main__":
    main()
