#!/usr/bin/env python3
"""Regenerates /verif/MANIFEST.json from the table below (kept here so the manifest is always valid)."""
import json
import os

VERIF = os.path.dirname(os.path.dirname(os.path.abspath(__file__)))

# id -> (engine, level, technique, text, note, design_ref)
CHECKS = {
    "C14": ("enumerators", "model_checking",
            "exhaustive enumeration of an entry alphabet x solve histories on the real class, dense reference oracle",
            "Every SPD system over the stated alphabet (all of them for n<=4, one-irregular-position patterns and "
            "scalings above) is solved by the real SymmetricTridiagonalSolver for all unit right-hand sides and all "
            "solve histories up to depth 3/4; each solve is judged against a dense long-double reference and against "
            "a fresh object bit for bit.",
            "Trusted: the dense reference, g++/libstdc++, the documented matrix layout. Bounded by the alphabet and n.",
            "DESIGN.md 5/C14"),
}

NOT_YET = {}


def main():
    props = [json.loads(l) for l in open(os.path.join(VERIF, "properties.jsonl"))]
    checks = []
    na = []
    for p in props:
        pid = p["id"]
        if pid in CHECKS:
            eng, level, tech, text, note, ref = CHECKS[pid]
            checks.append({
                "property_id": pid,
                "quick_cmd": "python3-vt checks/run.py %s --tier quick" % pid,
                "thorough_cmd": "python3-vt checks/run.py %s --tier thorough" % pid,
                "evidence_file": "evidence/%s.json" % pid,
                "replay_cmd_template": "python3-vt checks/run.py %s --replay {path}" % pid,
                "engine": eng,
                "level_claimed": {"category": level, "text": text, "design_ref": ref},
                "level_note": note,
                "technique": tech,
            })
        else:
            na.append({"property_id": pid,
                       "reason": NOT_YET.get(pid, "check not built yet in this round (work in progress; see DESIGN.md "
                                                  "section 5 for the planned model-checking design) - not claimed")})
    man = {
        "version": 1,
        "setup_cmd": "python3-vt checks/setup.py",
        "hooks": {
            "guard": "SCICOMPMOD_GMGPOLAR_VERIF",
            "enable": "no source hooks are needed: harness translation units are compiled with -fno-access-control "
                      "and the OpenMP/TSan runtime entry points are replaced at link time (engines/mcomp)",
            "baseline_off_cmd": "cmake -G Ninja -S /repo -B /repo/_build && cmake --build /repo/_build && "
                                "ctest --test-dir /repo/_build -j8 --timeout 900",
            "source_commits": [],
            "add_only": True,
        },
        "engines": [
            {"name": "enumerators", "path": "harness/", "serves_properties": ["C14", "C15", "C16", "C17"],
             "kind_free_text": "nested-loop exhaustive enumerators over finite alphabets on the real classes"},
        ],
        "checks": checks,
        "not_applicable": na,
        "notes": "All checks rebuild the repository from /repo's working tree (VERIF_REPO overrides) into /verif/build.",
    }
    with open(os.path.join(VERIF, "MANIFEST.json"), "w") as f:
        json.dump(man, f, indent=1)
    print("wrote MANIFEST.json: %d checks, %d not claimed" % (len(checks), len(na)))


if __name__ == "__main__":
    main()
