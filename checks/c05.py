"""C05 the interior operator is symmetric positive definite; the smoothers' line blocks inherit both."""
import json
import numpy as np

import common
import opalg_lib as ol
import c03
import c04

PID = "C05"
LEVEL = "model_checking"
TOL_SYM = 1e-13
TOL_BLK = 1e-12


def _build():
    return c03._build()


def oracle(s, r):
    viols, stats = [], {}
    Aref, pattern, dirichlet, info = ol.reference_A(r)
    sc = ol.rowscale(Aref)
    N = Aref.shape[0]
    free = ~dirichlet
    idx, nr, nt, C = info["idx"], info["nr"], info["nt"], info["circles"]
    line = np.zeros(N, int)
    for i in range(nr):
        for j in range(nt):
            line[idx[i, j]] = i if i < C else 1000 + j
    same = line[:, None] == line[None, :]
    for strat in sorted(k[2:] for k in r if k.startswith("A_") and not k.endswith(("_affdev", "_linx", "_liny"))):
        A = ol.dense(r["A_" + strat])
        AII = A[np.ix_(free, free)]
        scI = sc[free]
        # symmetry: for ALL pairs
        asym = np.abs(AII - AII.T) / np.sqrt(scI[:, None] * scI[None, :])
        stats["worst_asym"] = max(stats.get("worst_asym", 0.0), float(asym.max()))
        if asym.max() > TOL_SYM:
            fi = np.where(free)[0]
            i, j = np.unravel_index(np.argmax(asym), asym.shape)
            ri, rj = c03._node(info, fi[i]), c03._node(info, fi[j])
            viols.append(("symmetry:%s:%s:%s" % (strat, c03._row_class(info, ri), c03._offset(info, ri, rj)),
                          "A_%s is not symmetric on the non-Dirichlet unknowns: A[(%d,%d),(%d,%d)]=%.17g but transposed "
                          "entry %.17g" % (strat, ri[0], ri[1], rj[0], rj[1], AII[i, j], AII[j, i]), {"row": ri, "col": rj}))
        # positive definiteness of the symmetric part
        Sy = 0.5 * (AII + AII.T)
        w = np.linalg.eigvalsh(Sy)
        lam = float(w.min()) / float(np.abs(w).max())
        stats["min_rel_eig"] = min(stats.get("min_rel_eig", 1.0), lam)
        try:
            np.linalg.cholesky(Sy)
            chol_ok = True
        except np.linalg.LinAlgError:
            chol_ok = False
        if not chol_ok or not (w.min() > 0):
            viols.append(("not-positive-definite:" + strat, "interior block of A_%s is not positive definite: lambda_min = %.3g"
                          % (strat, w.min()), {}))
    # stored line matrices (read before their first solve)
    names = [k for k in r if k.startswith("Asc_") and not k.endswith("_innerCSRrows")]
    if len(names) < 10:
        viols.append(("missing-variants", "expected 5 smoother variants x 2 thread counts, got %d" % len(names), {}))
    for nm in sorted(names):
        strat = "give" if "give" in nm else "take"
        A = ol.dense(r["A_%s11" % strat])
        Asym = np.where(same, A, 0.0)
        Asym[:, dirichlet] = 0.0
        Asym[dirichlet, :] = 0.0
        Asym[dirichlet, dirichlet] = 1.0
        M = ol.dense(r[nm])
        D = np.abs(M - Asym) / sc[:, None]
        stats["worst_block_rel"] = max(stats.get("worst_block_rel", 0.0), float(D.max()))
        if D.max() > TOL_BLK:
            i, j = np.unravel_index(np.argmax(D), D.shape)
            ri, rj = c03._node(info, i), c03._node(info, j)
            kind = "circle" if ri[0] < C else "radial"
            viols.append(("line-block:%s:%s:%s:%s" % (strat, kind, c03._row_class(info, ri), c03._offset(info, ri, rj)),
                          "%s: stored %s line matrix entry at row (%d,%d) col (%d,%d) is %.17g, the operator's block has %.17g"
                          % (nm, kind, ri[0], ri[1], rj[0], rj[1], M[i, j], Asym[i, j]), {"row": ri, "col": rj, "matrix": nm}))
        # each line block SPD
        bad = None
        for l in np.unique(line):
            nodes = np.where(line == l)[0]
            B = M[np.ix_(nodes, nodes)]
            if np.abs(B - B.T).max() > TOL_SYM * np.abs(B).max():
                bad = ("line-block-asym", l)
                break
            if np.linalg.eigvalsh(0.5 * (B + B.T)).min() <= 0:
                bad = ("line-block-not-spd", l)
                break
        if bad:
            viols.append(("%s:%s" % (bad[0], strat), "%s: line %d block is not symmetric positive definite" % (nm, bad[1]),
                          {"matrix": nm}))
        stats["line_matrices"] = stats.get("line_matrices", 0) + len(np.unique(line))
    stats["pairs"] = int(free.sum()) ** 2 * 2
    return viols, stats


def cases_for(tier):
    if tier == "thorough":
        return ol.lattice([5, 7, 8, 9, 11, 13, 17], [4, 8, 12, 16, 20, 24, 32], "geo,A11,S,Scache,linesonly", tier,
                          need_nt4=True, cycle_offsets=(0, 1, 2), extra={"tlist": "1,3"}) + \
            ol.full_block([5, 7, 8], [4, 8, 12], "geo,A11,S,Scache,linesonly", tier, need_nt4=True, extra={"tlist": "1,3"})
    return ol.lattice([5, 6, 7, 8, 9, 11], [4, 8, 12, 16], "geo,A11,S,Scache,linesonly", tier, cycle_offsets=(0, 1), need_nt4=True, extra={"tlist": "1,3"})


def main(tier):
    rep = common.Reporter(PID, tier, LEVEL)
    binary = _build()
    cases = cases_for(tier)
    results = ol.run_cases(binary, cases, "c05", "oracle")
    tot, nontriv = {}, set()
    for s, viols, st in results:
        for k, v in st.items():
            if k.startswith("worst") or k.startswith("max"):
                tot[k] = max(tot.get(k, 0.0), v)
            elif k.startswith("min"):
                tot[k] = min(tot.get(k, 1e300), v)
            else:
                tot[k] = tot.get(k, 0) + v
        nontriv.add((s["nr"], s["nt"], s["circles"], s["dirbc"], s["geom"], s["alpha"], s["beta"], s["rpat"], s["tpat"]))
        for key, what, extra in viols:
            rp = ol.replay_record(s)
            rp.update(extra)
            rep.violation(key, what + "  [case %s]" % json.dumps(ol.spec_summary(s)), rp)
    hist_cov = ol.history_block(binary, [c for c in cases if not c["id"].startswith("f")], rep, n=(12 if tier == "thorough" else 8))
    cov = {
        "full_product_block_cases": sum(1 for c in cases if c["id"].startswith("f")),
        "full_product_block_rule": ol.FULL_BLOCK_RULE,
        "states": len(results), "transitions": int(tot.get("pairs", 0)),
        "traces_validated_against_impl": len(results),
        "evaluations": len(results), "distinct_nontrivial": len(nontriv),
        "worst_asymmetry": tot.get("worst_asym"), "smallest_relative_eigenvalue": tot.get("min_rel_eig"),
        "worst_line_block_rel": tot.get("worst_block_rel"), "line_matrices_checked": int(tot.get("line_matrices", 0)),
        "thresholds": {"symmetry": TOL_SYM, "line_block": TOL_BLK},
        "rule": "states = lattice cases; transitions = (i,j) pairs of non-Dirichlet unknowns whose entries A_ij, A_ji were "
                "compared (all of them, both strategies); the operator is extracted on all unit vectors, so <Ax,y>=<x,Ay> "
                "and <Ax,x>>0 hold for all vectors iff they hold entrywise / spectrally; line blocks = matrices stored by "
                "SmootherGive (4 cache combinations) and SmootherTake before their first solve",
        "samples": [ol.spec_summary(s) for s, _, _ in results[:3]],
        "exhaustive": True,
    }
    cov.update(hist_cov)
    return rep.finish(cov, ["non-orthogonal geometries (Shafranov, Czarny, Culham) are part of the lattice so that mixed "
                            "terms are non-zero", "eigenvalues from numpy/LAPACK"])


def replay(path):
    return c04._replay(path, "c05", PID)
