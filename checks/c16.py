"""C16 sparse LU: exhaustive sparsity patterns (n<=4) x storage orders x constructors x scalings, dense reference."""
import json
import common
import enumlib

PID = "C16"
LEVEL = "model_checking"


def _build():
    return common.build_harness("c16_sparselu", "san", ["c16_sparselu.cpp"], link_libs=False)


def main(tier):
    rep = common.Reporter(PID, tier, LEVEL)
    binary = _build()
    parts = common.NCPU
    res = enumlib.run_enumerator(binary, tier, parts, timeout=3000)
    allstats, samples = [], []
    for p, rc, out, err in res:
        st, sm, vi = enumlib.parse_lines(out)
        if rc != 0:
            enumlib.crash_report(rep, "c16", p, rc, out, err)
        allstats.append(st)
        samples += sm
        for key, what, spec in vi:
            rep.violation(key, what, {"spec": spec})
    st = enumlib.merge_stats(allstats)
    cov = {
        "states": int(st.get("matrices", 0)),
        "transitions": int(st.get("solves", 0)),
        "traces_validated_against_impl": int(st.get("solves", 0)),
        "evaluations": int(st.get("matrices", 0)),
        "distinct_nontrivial": max([int(x.get("distinct_patterns", 0)) for x in allstats] or [0]),
        "rule": "all 2^(n(n-1)) off-diagonal sparsity patterns for n=2,3,4 (strictly dominant, non-symmetric, both "
                "diagonal signs, with and without explicit stored zeros), every order of the entries inside every row "
                "for n<=3 and sorted/reversed/rotated/diagonal-last above, 3 CSR constructors, 4 row scalings "
                "(1e-6..1e6), L*U products that are not dominant, banded/arrow/dense/5-point families for n=5..8(12); "
                "all unit right-hand sides + 3 dense ones solved one after another on one solver; distinct = sparsity "
                "patterns seen by the busiest of the parallel parts (a lower bound of the total)",
        "samples": samples[:6] or ["(none)"],
        "worst_rowwise_backward_ratio": st.get("worst_ratio"),
        "threshold": 64.0,
        "bounds": "pivots stay >= 1e-6 in magnitude: the solver's absolute 1e-12 pivot cut-off (F10) is outside the alphabet",
        "exhaustive": True,
    }
    return rep.finish(cov, ["dense long-double residual as reference", "duplicate (row,col) entries are not generated"])


def replay(path):
    binary = _build()
    spec = json.load(open(path))["replay"]["spec"]
    outs = []
    for _ in range(2):
        rc, out, err = common.run_probe(binary, ["replay"], stdin_text=spec + "\n")
        outs.append((rc, [l for l in out.splitlines() if l.startswith("VIOL")]))
    if outs[0] != outs[1]:
        print("replay is not deterministic; refusing to report")
        return 2
    for l in outs[0][1]:
        print(l)
    if outs[0][1] or outs[0][0] != 0:
        print("VIOLATION property=%s replay=%s" % (PID, path))
        return 1
    print("replay: property held")
    return 0
