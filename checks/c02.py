"""C02 second-order accuracy; implicit extrapolation raises the order.  Every shipped smooth triple on a refinement chain."""
import itertools
import json
import math

import common
import gmg_lib as gl
import c01

PID = "C02"
LEVEL = "exploration"
ORDER_PLAIN = 1.75          # clean-tree minima: 1.94 (weighted l2) / 1.84 (max)
ORDER_EX_L2 = 3.2           # clean-tree minimum 3.41
ORDER_EX_INF = 2.5          # clean-tree minimum 2.77 (tends to 3 from below for the Cartesian problems)
VARIANT_TOL = 1e-6          # clean-tree maximum 1.6e-10
ORDER_PLAIN_COARSE = 1.5    # first pair 17x32 -> 33x64 is pre-asymptotic: clean-tree minima 1.88 / 1.66 (extrapolated 3.53 / 2.73)
PROB_NAMES = {0: "CartesianR2", 1: "CartesianR6", 2: "PolarR6"}
GEOM_NAMES = {0: "CircularGeometry", 1: "ShafranovGeometry", 2: "CzarnyGeometry"}
PROF_NAMES = {(0, 0): "Poisson", (1, 0): "Sonnendrucker", (1, 1): "SonnendruckerGyro", (2, 0): "Zoni", (2, 1): "ZoniGyro",
              (3, 0): "ZoniShifted", (3, 1): "ZoniShiftedGyro"}


def _build():
    common.build_lib("rel")
    return common.build_harness("gmg", "rel", ["gmg.cpp"])


def class_name(cfg):
    return "%s_%s_%s" % (PROB_NAMES[cfg["prob"]], PROF_NAMES[(cfg["alpha"], cfg["beta"])], GEOM_NAMES[cfg["geom"]])


def configs(tier):
    out = []
    variants = [dict(strat=1, cc=1, cg=1), dict(strat=0, cc=1, cg=1)]
    if tier == "thorough":
        variants += [dict(strat=1, cc=0, cg=0), dict(strat=1, cc=0, cg=1), dict(strat=1, cc=1, cg=0)]
    for geom, prob, (alpha, beta), dirbc, var, extr in itertools.product((0, 1, 2), (0, 1, 2), c01.PROFILES, (0, 1), variants, (0, 1)):
        cfg = c01.base(geom, prob, alpha, beta, dirbc, var["strat"], extr, 0)
        cfg.update(var)
        cfg.update(fmg=1, fmg_it=2, fmg_cycle=0, abstol=-1.0, reltol=1e-12, maxit=60, indep=0)
        out.append(cfg)
    if tier != "thorough":
        # the uncached give paths (coefficients / geometry recomputed at every use) on one triple per geometry x problem
        k = 0
        for geom, prob in itertools.product((0, 1, 2), (0, 1, 2)):
            alpha, beta = c01.PROFILES[1 + (k % 6)]
            for var in (dict(strat=1, cc=0, cg=0), dict(strat=1, cc=0, cg=1), dict(strat=1, cc=1, cg=0)):
                for extr in (0, 1):
                    cfg = c01.base(geom, prob, alpha, beta, k % 2, 1, extr, 0)
                    cfg.update(var)
                    cfg.update(fmg=1, fmg_it=2, fmg_cycle=0, abstol=-1.0, reltol=1e-12, maxit=60, indep=0)
                    out.append(cfg)
            k += 1
    # two-level hierarchies x every cycle type (the direct-solve branch of each cycle is the whole coarse-grid correction there),
    # one triple per geometry x problem
    k = 0
    for geom, prob in itertools.product((0, 1, 2), (0, 1, 2)):
        alpha, beta = c01.PROFILES[1 + ((k + 3) % 6)]
        for strat, extr, cycle in itertools.product((0, 1), (0, 1), (0, 1, 2)):
            cfg = c01.base(geom, prob, alpha, beta, k % 2, strat, extr, cycle)
            cfg.update(cc=1, cg=1, maxlev=2)
            cfg.update(fmg=1, fmg_it=2, fmg_cycle=0, abstol=-1.0, reltol=1e-12, maxit=60, indep=0)
            out.append(cfg)
        k += 1
    return out


def main(tier):
    rep = common.Reporter(PID, tier, LEVEL)
    binary = _build()
    cfgs = configs(tier)
    chain = (0, 1, 2, 3) if tier == "thorough" else (0, 1, 2)
    lines, index = [], {}
    for i, cfg in enumerate(cfgs):
        for d in chain:
            cid = "a%05d_%d" % (i, d)
            c = dict(cfg)
            c["div2"] = d
            lines.append((cid, gl.line_of(cid, c)))
    # thorough: one more refinement (129x256 -> 257x512) for one triple per geometry x problem (grids whose circle count
    # has the other parity, which the shorter chain never reaches)
    deep = []
    if tier == "thorough":
        seen = set()
        for i, cfg in enumerate(cfgs):
            key = (cfg["geom"], cfg["prob"])
            if cfg["dirbc"] == 0 and cfg["cc"] == 1 and cfg["cg"] == 1 and (key, cfg["strat"], cfg["extr"]) not in seen and \
                    (cfg["alpha"], cfg["beta"]) == c01.PROFILES[1 + ((cfg["geom"] * 3 + cfg["prob"]) % 6)]:
                seen.add((key, cfg["strat"], cfg["extr"]))
                deep.append(i)
                cid = "a%05d_%d" % (i, 4)
                c = dict(cfg)
                c["div2"] = 4
                lines.append((cid, gl.line_of(cid, c)))
    res = gl.run_cases(binary, lines, chunk=4)
    worst = {"plain_l2": 9, "plain_inf": 9, "ex_l2": 9, "ex_inf": 9}
    reported_n = [0]
    errs = {}
    groups = {}
    pairs = 0
    for i, cfg in enumerate(cfgs):
        name = class_name(cfg)
        chain_i = tuple(chain) + ((4,) if i in deep else ())
        rs = [res.get("a%05d_%d" % (i, d), {"status": "crash", "kind": "missing"}) for d in chain_i]
        bad = [r for r in rs if r.get("status") != "ok" or r.get("finite") != "1"]
        if bad:
            r = bad[0]
            rep.violation("run-failed:%s" % r.get("status"), "%s: run failed (%s) %s" % (name, r.get("status"), gl.crash_line(r.get("stderr", "")) or r.get("what", "")),
                          {"config": cfg})
            continue
        e2 = [gl.num(r, "he2") for r in rs]
        ei = [gl.num(r, "heinf") for r in rs]
        # the error figures the solver REPORTS (exactErrorWeightedEuclidean / exactErrorInfinity) are the norms of exact - returned
        # solution: the harness recomputes both from the returned vector (clean tree: agreement to 1.4e-15 relative)
        for r, a2, ai in zip(rs, e2, ei):
            l2, li = gl.num(r, "e2"), gl.num(r, "einf")
            if l2 is not None and li is not None and l2 >= 0 and li >= 0:
                reported_n[0] += 1
                if abs(l2 - a2) > 1e-10 * max(a2, 1e-300) or abs(li - ai) > 1e-10 * max(ai, 1e-300):
                    rep.violation("reported-error:%s" % ("extrapolated" if cfg["extr"] else "plain"),
                                  "%s on %sx%s: the solver reports errors %.17g / %.17g, the norms of (exact - returned solution) recomputed "
                                  "from the returned vector are %.17g / %.17g" % (name, r["nr"], r["nt"], l2, li, a2, ai),
                                  {"config": cfg, "chain": list(chain_i), "kind": "reported"})
                    break
        errs[(name, cfg["dirbc"], cfg["strat"], cfg["cc"], cfg["cg"], cfg["cycle"], cfg["maxlev"], cfg["extr"])] = (e2[-1], ei[-1])
        for d, r, a2, ai in zip(chain_i, rs, e2, ei):
            groups.setdefault((name, cfg["dirbc"], cfg["extr"], d), []).append((a2, ai, cfg, "%sx%s" % (r["nr"], r["nt"])))
        for a in range(len(chain_i) - 1):
            pairs += 1
            o2 = math.log(e2[a] / e2[a + 1]) / math.log(2.0) if e2[a + 1] > 0 else 99
            oi = math.log(ei[a] / ei[a + 1]) / math.log(2.0) if ei[a + 1] > 0 else 99
            ex = cfg["extr"] == 1
            kk = "ex" if ex else "plain"
            is_f1 = name.endswith("Poisson_CzarnyGeometry")
            if not is_f1:
                worst[kk + "_l2"] = min(worst[kk + "_l2"], o2)
                worst[kk + "_inf"] = min(worst[kk + "_inf"], oi)
            plain = ORDER_PLAIN_COARSE if chain_i[a] == 0 else ORDER_PLAIN
            need2, needi = (ORDER_EX_L2, ORDER_EX_INF) if ex else (plain, plain)
            if o2 < need2 or oi < needi:
                grid = "%sx%s->%sx%s" % (rs[a]["nr"], rs[a]["nt"], rs[a + 1]["nr"], rs[a + 1]["nt"])
                key = ("F1:order:%s" % name) if is_f1 else "order:%s:%s" % ("extrapolated" if ex else "plain", name)
                rep.violation(key, "%s (%s, DirBC_Interior=%d, strategy=%d, caches=%d%d): observed order %.2f (weighted l2) / %.2f "
                              "(max) on %s, required >= %.2f / %.2f; errors %s" %
                              (name, ("implicit extrapolation" if ex else "no extrapolation") + (", cycle %d, maxLevels %d" % (cfg["cycle"], cfg["maxlev"])),
                               cfg["dirbc"], cfg["strat"], cfg["cc"],
                               cfg["cg"], o2, oi, grid, need2, needi, ["%.3g" % x for x in e2]), {"config": cfg, "chain": list(chain_i)})
    # the converged discrete solution does not depend on the stencil strategy or on the caches: on every grid of the chain the
    # errors of all variants of one triple agree (clean tree: to 2e-10 relative)
    grp_n = 0
    for (name, dirbc, extr, d), v in groups.items():
        if len(v) < 2:
            continue
        grp_n += 1
        for j, norm in ((0, "weighted l2"), (1, "max")):
            lo = min(v, key=lambda x: x[j])
            hi = max(v, key=lambda x: x[j])
            if hi[j] > lo[j] * (1 + VARIANT_TOL):
                rep.violation("variant-dependent-solution:%s" % ("extrapolated" if extr else "plain"),
                              "%s (DirBC_Interior=%d, %s) on %s: the %s error depends on the variant: %.6g with strategy=%d caches=%d%d cycle=%d maxLevels=%d, "
                              "%.6g with strategy=%d caches=%d%d cycle=%d maxLevels=%d" % (name, dirbc, "implicit extrapolation" if extr else "no extrapolation",
                                                                     hi[3], norm, hi[j], hi[2]["strat"], hi[2]["cc"], hi[2]["cg"], hi[2]["cycle"], hi[2]["maxlev"],
                                                                     lo[j], lo[2]["strat"], lo[2]["cc"], lo[2]["cg"], lo[2]["cycle"], lo[2]["maxlev"]),
                              {"config": hi[2], "other": lo[2], "chain": [d], "kind": "variant"})
                break
    # on the finest grid of the chain the extrapolated solution is the more accurate one
    cmp_n = 0
    for (name, dirbc, strat, cc, cg, cycle, maxlev, extr), (e2, ei) in errs.items():
        if extr != 0:
            continue
        other = errs.get((name, dirbc, strat, cc, cg, cycle, maxlev, 1))
        if other is None or name.endswith("Poisson_CzarnyGeometry"):
            continue
        cmp_n += 1
        if not (other[0] < e2 and other[1] < ei):
            rep.violation("extrapolated-not-better:%s" % name, "%s (DirBC_Interior=%d, strategy=%d): on the finest grid the extrapolated "
                          "error %.3g / %.3g is not smaller than the non-extrapolated %.3g / %.3g" % (name, dirbc, strat, other[0], other[1], e2, ei),
                          {"name": name, "dirbc": dirbc, "strat": strat})
    cov = {
        "evaluations": len(lines),
        "distinct_nontrivial": len(cfgs),
        "refinement_pairs_judged": pairs,
        "extrapolated_vs_plain_comparisons": cmp_n,
        "variant_groups_compared": grp_n,
        "reported_error_figures_recomputed": reported_n[0],
        "lowest_orders_healthy_triples": worst,
        "thresholds": {"plain": ORDER_PLAIN, "plain_first_pair_17x32": ORDER_PLAIN_COARSE, "extrapolated_l2": ORDER_EX_L2, "extrapolated_max": ORDER_EX_INF},
        "rule": "63 shipped smooth triples (3 geometries x 3 problems x 7 coefficient classes) x interior boundary x {give, take"
                "%s} x extrapolation {none, implicit}, each solved (FMG, relative tolerance 1e-12, <= 60 cycles) on the chain "
                "divideBy2 = %s of the 17x32 base grid; orders from error ratios of successive refinements, errors computed by "
                "the harness from the returned vector" % (" + 3 uncached give variants" if tier == "thorough" else "", list(chain)),
        "samples": [c01.short(cfgs[0]), c01.short(cfgs[-1])],
        "exhaustive": True,
    }
    return rep.finish(cov, ["the exact solution classes are taken as the specification of the continuous problem (C19 checks them "
                            "against the source terms)", "mesh width is a continuum: the order is judged on the stated chain only"])


def replay(path):
    rp = json.load(open(path))["replay"]
    if "config" not in rp:
        print("replay: comparison finding, re-run the check")
        return 2
    binary = _build()
    cfg, chain = rp["config"], rp.get("chain", [1, 2])
    if rp.get("kind") == "reported":
        outs = []
        for _ in range(2):
            lines = []
            for d in chain:
                c = dict(cfg)
                c["div2"] = d
                lines.append(("r%d" % d, gl.line_of("r%d" % d, c)))
            res = gl.run_cases(binary, lines, chunk=1)
            outs.append([tuple(res["r%d" % d].get(k) for k in ("e2", "einf", "he2", "heinf")) for d in chain])
        if outs[0] != outs[1]:
            print("replay is not deterministic; refusing to report")
            return 2
        bad = False
        for e2, einf, he2, heinf in outs[0]:
            l2, li, a2, ai = float.fromhex(e2), float.fromhex(einf), float(he2), float(heinf)
            print("reported %.17g %.17g recomputed %.17g %.17g" % (l2, li, a2, ai))
            bad |= abs(l2 - a2) > 1e-10 * max(a2, 1e-300) or abs(li - ai) > 1e-10 * max(ai, 1e-300)
        if bad:
            print("VIOLATION property=%s replay=%s" % (PID, path))
            return 1
        print("replay: property held")
        return 0
    if rp.get("kind") == "variant":
        outs = []
        for _ in range(2):
            lines = []
            for tag, c0 in (("a", cfg), ("b", rp["other"])):
                c = dict(c0)
                c["div2"] = chain[0]
                lines.append((tag, gl.line_of(tag, c)))
            res = gl.run_cases(binary, lines, chunk=1)
            outs.append([(res[t].get("he2"), res[t].get("heinf")) for t in "ab"])
        if outs[0] != outs[1]:
            print("replay is not deterministic; refusing to report")
            return 2
        (a2, ai), (b2, bi) = [(float(x), float(y)) for x, y in outs[0]]
        print("errors %g %g vs %g %g" % (a2, ai, b2, bi))
        if max(a2, b2) > min(a2, b2) * (1 + VARIANT_TOL) or max(ai, bi) > min(ai, bi) * (1 + VARIANT_TOL):
            print("VIOLATION property=%s replay=%s" % (PID, path))
            return 1
        print("replay: property held")
        return 0
    outs = []
    for _ in range(2):
        lines = []
        for d in chain:
            c = dict(cfg)
            c["div2"] = d
            lines.append(("r%d" % d, gl.line_of("r%d" % d, c)))
        res = gl.run_cases(binary, lines, chunk=1)
        outs.append([(res["r%d" % d].get("he2"), res["r%d" % d].get("heinf")) for d in chain])
    if outs[0] != outs[1]:
        print("replay is not deterministic; refusing to report")
        return 2
    e2 = [float(a) for a, _ in outs[0]]
    ei = [float(b) for _, b in outs[0]]
    ex = cfg["extr"] == 1
    fail = False
    for a in range(len(chain) - 1):
        plain = ORDER_PLAIN_COARSE if chain[a] == 0 else ORDER_PLAIN
        need2, needi = (ORDER_EX_L2, ORDER_EX_INF) if ex else (plain, plain)
        o2 = math.log(e2[a] / e2[a + 1]) / math.log(2.0)
        oi = math.log(ei[a] / ei[a + 1]) / math.log(2.0)
        print("orders %.2f %.2f (need %.2f %.2f)" % (o2, oi, need2, needi))
        fail |= o2 < need2 or oi < needi
    if fail:
        print("VIOLATION property=%s replay=%s" % (PID, path))
        return 1
    print("replay: property held")
    return 0
