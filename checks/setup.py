#!/usr/bin/env python3
"""MANIFEST.setup_cmd: pre-build every library flavour and every harness so that the checks start warm.
Everything is built offline from /repo's working tree and /verif's own sources."""
import importlib
import os
import sys
import time

sys.path.insert(0, os.path.dirname(os.path.abspath(__file__)))
import common  # noqa: E402


def main():
    t0 = time.time()
    for fl in ["rel", "san", "sannd", "tsl"]:
        common.build_lib(fl, with_exe=(fl in ("rel", "san", "sannd")))
    mods = []
    for f in sorted(os.listdir(os.path.dirname(os.path.abspath(__file__)))):
        if len(f) == 6 and f.startswith("c") and f.endswith(".py") and f[1:3].isdigit():
            mods.append(f[:-3])
    jobs = []
    for m in mods:
        mod = importlib.import_module(m)
        if hasattr(mod, "_build"):
            jobs.append(mod._build)
    common.pmap(lambda fn: fn(), jobs, jobs=8)
    common.log("[setup] done in %.1fs" % (time.time() - t0))
    return 0


if __name__ == "__main__":
    sys.exit(main())
