#!/usr/bin/env python3
"""Entry point: run.py <ID> --tier quick|thorough [--replay <file>]"""
import importlib
import os
import sys
import traceback

sys.path.insert(0, os.path.dirname(os.path.abspath(__file__)))
import common  # noqa: E402


def main():
    if len(sys.argv) < 2:
        print("usage: run.py <Cxx> --tier quick|thorough [--replay file]")
        return 2
    pid = sys.argv[1].upper()
    tier = common.tier_from_args(sys.argv)
    replay = None
    if "--replay" in sys.argv:
        replay = sys.argv[sys.argv.index("--replay") + 1]
    mod = importlib.import_module(pid.lower())
    try:
        if replay:
            return mod.replay(replay)
        return mod.main(tier)
    except common.BuildError as e:
        # a tree that does not build is not a property violation; report loudly, fail the run
        print("BUILD-ERROR property=%s" % pid)
        common.log(str(e))
        return 2
    except Exception:
        traceback.print_exc()
        return 2


if __name__ == "__main__":
    sys.exit(main())
